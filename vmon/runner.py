# -*- coding: utf-8 -*-
"""
Runner: fans a property's workload out to worker subprocesses, collects what
the monitors observed, applies the verdict discipline (violated / held on what
was observed / inconclusive), writes evidence/<id>.json and replay files.

Exit codes: 0 held (known findings printed as KNOWN-FINDING lines),
            1 violation not listed in known_findings.json (VIOLATION line),
            2 inconclusive (INCONCLUSIVE line, no VIOLATION line).
"""

import argparse
import base64
import collections
import hashlib
import importlib
import json
import os
import pickle
import random
import shutil
import subprocess
import sys
import tempfile
import time
import traceback

VERIF = os.path.dirname(os.path.dirname(os.path.abspath(__file__)))
REPO = os.environ.get("VERIF_REPO", "/repo")
PY = os.environ.get("VERIF_PYTHON", "/venv/bin/python")

def load_prop(pid):
    return importlib.import_module("vmon.props." + pid.lower())

def case_rng(seed, index):
    h = hashlib.sha256(f"{seed}:{index}".encode()).digest()
    return random.Random(int.from_bytes(h[:8], "big"))

def b64(obj):
    return base64.b64encode(pickle.dumps(obj, protocol=4)).decode()

def unb64(s):
    return pickle.loads(base64.b64decode(s))

def check_import():
    import dataiter
    path = os.path.realpath(dataiter.__file__)
    want = os.path.realpath(REPO)
    if not path.startswith(want + os.sep):
        raise SystemExit(f"HARNESS: dataiter imported from {path}, expected under {want}")
    return path

# ---------------------------------------------------------------- worker side

def worker_main(argv):
    ap = argparse.ArgumentParser()
    ap.add_argument("pid")
    ap.add_argument("--tier", default="quick")
    ap.add_argument("--seed", type=int, default=0)
    ap.add_argument("--worker", type=int, default=0)
    ap.add_argument("--nworkers", type=int, default=1)
    ap.add_argument("--cases", type=int, default=10)
    ap.add_argument("--out", required=True)
    ap.add_argument("--progress", required=True)
    a = ap.parse_args(argv)
    import faulthandler
    faulthandler.enable()
    check_import()
    prop = load_prop(a.pid)
    if hasattr(prop, "worker_setup"):
        prop.worker_setup(a.tier)
    with open(a.out, "w") as out:
        for index in range(a.worker, a.cases, a.nworkers):
            rng = case_rng(a.seed, index)
            rec = {"i": index}
            try:
                case = prop.generate(rng, a.tier)
            except Exception:
                rec["harness_error"] = "generate: " + traceback.format_exc()
                out.write(json.dumps(rec) + "\n")
                continue
            with open(a.progress, "w") as pf:
                pf.write(json.dumps({"i": index, "case": b64(case)}))
            try:
                res = prop.execute(case)
            except Exception:
                rec["harness_error"] = "execute: " + traceback.format_exc()
                rec["case"] = b64(case)
                out.write(json.dumps(rec) + "\n")
                out.flush()
                continue
            rec.update(res)
            if res.get("violations"):
                rec["hashseed"] = os.environ.get("PYTHONHASHSEED")
            if res.get("violations") or index < 3 * a.nworkers and a.worker == 0:
                rec["case"] = b64(case)
                rec["case_repr"] = repr(case)[:3000]
            out.write(json.dumps(rec) + "\n")
            out.flush()
    with open(a.progress, "w") as pf:
        pf.write(json.dumps({"done": True}))

# ---------------------------------------------------------------- parent side

def load_known(pid):
    path = os.path.join(VERIF, "known_findings.json")
    known = {}
    if os.path.exists(path):
        data = json.load(open(path))
        for f in data.get("findings", []):
            if f.get("property") == pid and f.get("status") == "known":
                known[f["key"]] = f.get("what", "")
    return known

def repo_state():
    try:
        head = subprocess.run(["git", "-C", REPO, "rev-parse", "HEAD"], capture_output=True, text=True, timeout=30).stdout.strip()
        dirty = subprocess.run(["git", "-C", REPO, "status", "--porcelain", "--", "dataiter"], capture_output=True, text=True, timeout=30).stdout.strip()
        return head, bool(dirty)
    except Exception:
        return "unknown", True

def child_env(scratch):
    env = dict(os.environ)
    env["PYTHONHASHSEED"] = "0"
    pp = [VERIF]
    if REPO != "/repo":
        pp.insert(0, REPO)
    env["PYTHONPATH"] = os.pathsep.join(pp)
    env["NUMBA_CACHE_DIR"] = os.path.join(scratch, "numba_cache")
    env["PYTHONDONTWRITEBYTECODE"] = "1"
    env.setdefault("COLUMNS", "120")
    for k in ("OMP_NUM_THREADS", "OPENBLAS_NUM_THREADS", "MKL_NUM_THREADS", "NUMBA_NUM_THREADS", "ARROW_IO_THREADS"):
        env[k] = "1"
    env["OMP_THREAD_LIMIT"] = "1"
    env["VERIF_SCRATCH"] = scratch
    for k in ("DATAITER_USE_NUMBA", "DATAITER_USE_NUMBA_CACHE"):
        env.pop(k, None)
    return env

def write_replay(pid, key, rec, seed, n):
    d = os.path.join(VERIF, "replays", pid)
    os.makedirs(d, exist_ok=True)
    safe = "".join(c if c.isalnum() or c in "-_" else "_" for c in key)[:80]
    path = os.path.join(d, f"{safe}.{n}.json")
    json.dump({"property": pid, "key": key, "seed": seed, "index": rec.get("i"), "hashseed": rec.get("hashseed"),
               "violations": rec.get("violations"), "case": rec.get("case"),
               "case_repr": rec.get("case_repr")}, open(path, "w"), indent=1)
    return path

def run_replay(pid, path):
    check_import()
    prop = load_prop(pid)
    data = json.load(open(path))
    hs = data.get("hashseed")
    if hs is not None and os.environ.get("PYTHONHASHSEED") != str(hs):
        # workers run under different hash seeds (set / dict-of-str iteration order is part of the explored state): replay under the recorded one
        env = dict(os.environ, PYTHONHASHSEED=str(hs))
        os.execve(PY, [PY, "-m", "vmon.runner", pid, "--replay", path], env)
    case = unb64(data["case"])
    if hasattr(prop, "worker_setup"):
        prop.worker_setup("quick")
    res = prop.execute(case)
    print("case:", repr(case)[:2000])
    for v in res.get("violations", []):
        print("violation:", v["key"], "--", v["msg"])
    if res.get("violations"):
        known = load_known(pid)
        unlisted = [v for v in res["violations"] if v["key"] not in known]
        if unlisted:
            print(f"VIOLATION property={pid} replay={path}")
            return 1
        for v in res["violations"]:
            print(f"KNOWN-FINDING: property={pid} {v['key']}: {known[v['key']]}")
        return 0
    print("replay: no violation on the current tree")
    return 0

def main(argv=None):
    ap = argparse.ArgumentParser()
    ap.add_argument("pid")
    ap.add_argument("--tier", default=os.environ.get("VERIF_TIER") or "quick", choices=["quick", "thorough"])
    ap.add_argument("--seed", type=int, default=None)
    ap.add_argument("--cases", type=int, default=None)
    ap.add_argument("--workers", type=int, default=None)
    ap.add_argument("--replay", default=None)
    ap.add_argument("--no-evidence", action="store_true")
    a = ap.parse_args(argv)
    pid = a.pid.upper()
    if a.replay:
        sys.exit(run_replay(pid, a.replay))
    seed = a.seed if a.seed is not None else int(os.environ.get("VERIF_SEED") or 0)
    prop = load_prop(pid)
    if hasattr(prop, "custom_main"):
        sys.exit(prop.custom_main(a, seed))
    t0 = time.time()
    cases = a.cases or prop.CASES[a.tier]
    nworkers = a.workers or min(16, os.cpu_count() or 4, max(1, cases // 20))
    scratch = tempfile.mkdtemp(prefix=f"verif_{pid}_")
    try:
        code = _run(prop, pid, a, seed, cases, nworkers, scratch, t0)
    finally:
        shutil.rmtree(scratch, ignore_errors=True)
    sys.exit(code)

def _run(prop, pid, a, seed, cases, nworkers, scratch, t0):
    env = child_env(scratch)
    timeout = getattr(prop, "TIMEOUT", {"quick": 900, "thorough": 5400})[a.tier]
    procs = []
    for w in range(nworkers):
        wd = os.path.join(scratch, f"w{w}")
        os.makedirs(wd)
        out = os.path.join(wd, "out.jsonl")
        prog = os.path.join(wd, "progress.json")
        cmd = [PY, "-c", "import sys; from vmon import runner; runner.worker_main(sys.argv[1:])",
               pid, "--tier", a.tier, "--seed", str(seed), "--worker", str(w), "--nworkers", str(nworkers),
               "--cases", str(cases), "--out", out, "--progress", prog]
        log = open(os.path.join(wd, "log.txt"), "w")
        p = subprocess.Popen(cmd, cwd=wd, env=dict(env, PYTHONHASHSEED=str((seed * 31 + w) % 1000)), stdout=log, stderr=subprocess.STDOUT)
        procs.append((w, p, out, prog, log, wd))
    deadline = time.time() + timeout
    timed_out = []
    for w, p, out, prog, log, wd in procs:
        try:
            p.wait(timeout=max(1, deadline - time.time()))
        except subprocess.TimeoutExpired:
            p.kill()
            p.wait()
            timed_out.append(w)
        log.close()

    known = load_known(pid)
    evaluations = 0
    sigs = set()
    classes = collections.Counter()
    counters = collections.Counter()
    skipped = collections.Counter()
    viol_by_key = collections.OrderedDict()
    harness_errors = []
    crashes = []
    samples = []
    for w, p, out, prog, log, wd in procs:
        recs = []
        if os.path.exists(out):
            for line in open(out):
                line = line.strip()
                if line:
                    try:
                        recs.append(json.loads(line))
                    except Exception:
                        pass
        for rec in recs:
            if "harness_error" in rec:
                harness_errors.append(rec)
                continue
            evaluations += 1
            if rec.get("nontrivial"):
                sigs.add(rec.get("sig"))
            classes.update(rec.get("classes", []))
            counters.update(rec.get("counters", {}))
            skipped.update(rec.get("skipped", []))
            for v in rec.get("violations", []):
                viol_by_key.setdefault(v["key"], []).append((rec, v))
            if "case_repr" in rec and len(samples) < 4 and not rec.get("violations"):
                samples.append({"case": rec["case_repr"][:1200], "sig": rec.get("sig"), "observed": rec.get("observed")})
        if p.returncode != 0 and w not in timed_out:
            info = {"worker": w, "returncode": p.returncode}
            try:
                pr = json.load(open(prog))
                info["progress"] = pr
            except Exception:
                pr = None
            try:
                info["log_tail"] = open(os.path.join(wd, "log.txt")).read()[-3000:]
            except Exception:
                pass
            crashes.append(info)

    # ---- verdict
    lines = []
    code = 0
    nreplay = 0
    reproduced = {}
    unlisted = []
    for key, items in viol_by_key.items():
        if key in known:
            reproduced[key] = len(items)
            lines.append(f"KNOWN-FINDING: property={pid} {key}: {known[key]} (reproduced {len(items)}x)")
            continue
        rec, v = items[0]
        path = write_replay(pid, key, rec, seed, nreplay)
        nreplay += 1
        unlisted.append(key)
        print(f"violation {key}: {v['msg'][:1500]}  ({len(items)} cases)")
        lines.append(f"VIOLATION property={pid} replay={path}")
        code = 1
    for c in crashes:
        pr = c.get("progress") or {}
        if c["returncode"] < 0 and "case" in pr:
            # The interpreter died on a signal while a case was in flight: totality violated.
            rec = {"i": pr.get("i"), "case": pr["case"], "case_repr": "(worker died; see case)",
                   "violations": [{"key": "worker-died-signal", "msg": f"worker died with signal {-c['returncode']}: {c.get('log_tail','')[-800:]}"}]}
            path = write_replay(pid, "worker-died-signal", rec, seed, nreplay)
            nreplay += 1
            lines.append(f"VIOLATION property={pid} replay={path}")
            code = 1
    inconclusive = []
    if code == 0:
        if timed_out:
            inconclusive.append(f"watchdog fired for workers {timed_out}")
        if harness_errors:
            inconclusive.append(f"{len(harness_errors)} harness errors, first: {harness_errors[0]['harness_error'][-1500:]}")
        for c in crashes:
            if not (c["returncode"] < 0 and "case" in (c.get("progress") or {})):
                inconclusive.append(f"worker {c['worker']} exited {c['returncode']}: {c.get('log_tail','')[-1500:]}")
        reach = getattr(prop, "REACH", {}).get(a.tier) or getattr(prop, "REACH", {}).get("quick", {})
        # the floors are those of the quick budget (set >= 7 standard deviations below the mean count of a quick run); a larger run must reach them too
        scale = cases / float(prop.CASES["quick" if a.tier not in getattr(prop, "REACH", {}) else a.tier])
        for cls, need in reach.items():
            need = max(1, int(need * min(1.0, scale)))
            if classes.get(cls, 0) + counters.get(cls, 0) < need:
                inconclusive.append(f"reach: class {cls!r} seen {classes.get(cls,0)+counters.get(cls,0)} < {need}")
        if evaluations == 0 or len(sigs) < 2:
            inconclusive.append(f"too few judged cases (evaluations={evaluations}, distinct={len(sigs)})")
        if inconclusive:
            code = 2
            lines.append(f"INCONCLUSIVE property={pid} " + " | ".join(inconclusive)[:3000])
    wall = time.time() - t0
    head, dirty = repo_state()
    if not a.no_evidence:
        ev = {
            "property_id": pid, "tier": a.tier, "seed": seed, "level": getattr(prop, "LEVEL", "exploration"),
            "coverage": {
                "evaluations": evaluations,
                "distinct_nontrivial": len(sigs),
                "rule": prop.RULE,
                "samples": samples or [{"note": "no clean sample recorded"}],
                "classes_seen": dict(sorted(classes.items())),
                "monitor_events": dict(sorted(counters.items())),
                "skipped_by_domain": dict(sorted(skipped.items())),
                "known_findings_reproduced": reproduced,
                "unlisted_violation_keys": unlisted,
                "repo_head": head, "repo_dirty": dirty, "workers": nworkers,
                "worker_crashes": len(crashes), "inconclusive": inconclusive,
                "verdict": {0: "held-on-observed", 1: "violated", 2: "inconclusive"}[code],
            },
            "assumptions": getattr(prop, "ASSUMPTIONS", []),
            "wall_s": round(wall, 2),
            "violations": len(unlisted) + sum(1 for l in lines if "worker-died" in l),
        }
        os.makedirs(os.path.join(VERIF, "evidence"), exist_ok=True)
        json.dump(ev, open(os.path.join(VERIF, "evidence", f"{pid}.json"), "w"), indent=1, default=str)
    print(f"[{pid}] tier={a.tier} seed={seed} cases={evaluations} distinct_nontrivial={len(sigs)} "
          f"violation_keys={len(unlisted)} known_reproduced={len(reproduced)} wall={wall:.1f}s")
    top = ", ".join(f"{k}={v}" for k, v in sorted(classes.items())[:(100000 if os.environ.get("VERIF_FULL_COUNTERS") else 60)])
    print(f"[{pid}] classes: {top}")
    if counters:
        print(f"[{pid}] monitor events: " + ", ".join(f"{k}={v}" for k, v in sorted(counters.items())[:(100000 if os.environ.get("VERIF_FULL_COUNTERS") else 80)]))
    if harness_errors:
        print(f"[{pid}] {len(harness_errors)} harness errors; first: {harness_errors[0]['harness_error'][-1200:]}")
    for l in lines:
        print(l)
    return code

if __name__ == "__main__":
    main()
