# -*- coding: utf-8 -*-
"""
Canonicalisation of cells / columns / frames and the comparators used by every
oracle. Part of the trusted base: see DESIGN.md section 1.3.

All reads of library objects go through base-class slots (dict.items,
list.__iter__, np.asarray) so that the monitor never triggers
DataFrame.__getattribute__ / ListOfDicts.__getattribute__ side effects.
"""

import datetime
import math
import numpy as np

from numpy.dtypes import StringDType

NA = ("NA",)

_EPOCH = datetime.datetime(1970, 1, 1)

def is_nan(x):
    return isinstance(x, (float, np.floating)) and x != x

def dt_to_us(x):
    """datetime/date/np.datetime64 -> integer microseconds since epoch (exact)."""
    if isinstance(x, np.datetime64):
        return int(x.astype("datetime64[us]").astype(np.int64))
    if isinstance(x, datetime.datetime):
        d = x - _EPOCH
        return (d.days * 86400 + d.seconds) * 1000000 + d.microseconds
    if isinstance(x, datetime.date):
        return (x - datetime.date(1970, 1, 1)).days * 86400 * 1000000
    raise TypeError(type(x))

def canon_obj(x, string_na=False):
    """Canonical form of one Python / NumPy scalar cell."""
    if x is None:
        return NA
    if isinstance(x, (bool, np.bool_)):
        return ("B", bool(x))
    if isinstance(x, np.datetime64):
        return NA if np.isnat(x) else ("T", dt_to_us(x))
    if isinstance(x, np.timedelta64):       # note: a subclass of np.signedinteger
        if np.isnat(x):
            return NA
        return ("D", int(x.astype("timedelta64[us]").astype(np.int64)))
    if isinstance(x, (int, np.integer)):
        return ("N", int(x))
    if isinstance(x, (float, np.floating)):
        if isinstance(x, np.longdouble) and x == x and np.longdouble(float(x)) != x:
            return ("N", x)        # an extended-precision value that a double cannot hold: kept exactly
        x = float(x)
        return NA if x != x else ("N", x)
    if isinstance(x, str):
        x = str(x)
        if string_na and x == "":
            return NA
        return ("S", x)
    if isinstance(x, np.datetime64):
        return NA if np.isnat(x) else ("T", dt_to_us(x))
    if isinstance(x, np.timedelta64):
        if np.isnat(x):
            return NA
        return ("D", int(x.astype("timedelta64[us]").astype(np.int64)))
    if isinstance(x, (datetime.datetime, datetime.date)):
        return ("T", dt_to_us(x))
    if isinstance(x, datetime.timedelta):
        return ("D", (x.days * 86400 + x.seconds) * 1000000 + x.microseconds)
    if isinstance(x, (bytes, np.bytes_)):
        return ("Y", bytes(x))
    if isinstance(x, (complex, np.complexfloating)):
        return ("C", complex(x).real, complex(x).imag) if x == x else ("C", "nan")
    if isinstance(x, (list, tuple)):
        return ("L", tuple(canon_obj(y) for y in x))
    if isinstance(x, dict):
        return ("M", tuple((k, canon_obj(v)) for k, v in x.items()))
    if isinstance(x, np.ndarray):
        return ("L", tuple(canon_obj(y) for y in x.tolist()))
    return ("O", repr(x))

def col_cells(vec):
    """Canonical cells of a NumPy array / Vector, read without the library."""
    arr = np.asarray(vec)
    if arr.ndim != 1:
        return [("BADNDIM", arr.ndim)]
    dt = arr.dtype
    if isinstance(dt, StringDType) or dt.kind == "U":
        return [NA if s == "" else ("S", str(s)) for s in arr.tolist()]
    if dt.kind == "M":
        nat = np.isnat(arr)
        if dt == np.dtype("datetime64"):
            # generic unit: only NaT can live here
            return [NA if n else ("T", "generic") for n in nat.tolist()]
        us = arr.astype("datetime64[us]").astype(np.int64).tolist()
        return [NA if n else ("T", u) for n, u in zip(nat.tolist(), us)]
    if dt.kind == "m":
        nat = np.isnat(arr)
        if dt == np.dtype("timedelta64"):
            vals = arr.astype(np.int64).tolist()
            return [NA if n else ("D", ("generic", v)) for n, v in zip(nat.tolist(), vals)]
        us = arr.astype("timedelta64[us]").astype(np.int64).tolist()
        return [NA if n else ("D", u) for n, u in zip(nat.tolist(), us)]
    if dt.kind == "f":
        return [NA if x != x else ("N", x) for x in arr.astype(np.float64).tolist()] \
            if dt.itemsize <= 8 else [canon_obj(x) for x in arr]
    if dt.kind in "iu":
        return [("N", x) for x in arr.tolist()]
    if dt.kind == "b":
        return [("B", x) for x in arr.tolist()]
    if dt.kind == "S":
        return [("Y", x) for x in arr.tolist()]
    if dt.kind == "O":
        return [canon_obj(x) for x in arr]
    return [canon_obj(x) for x in arr.tolist()]

def dtype_kind(vec):
    """Coarse dtype family of a column: bool,int,float,string,ustr,date,datetime,timedelta,object,bytes,other."""
    dt = np.asarray(vec).dtype
    if isinstance(dt, StringDType): return "string"
    k = dt.kind
    if k == "U": return "ustr"
    if k == "b": return "bool"
    if k in "iu": return "int"
    if k == "f": return "float"
    if k == "M":
        return "date" if dt == np.dtype("datetime64[D]") else "datetime"
    if k == "m": return "timedelta"
    if k == "O": return "object"
    if k == "S": return "bytes"
    return "other"

def frame_items(df):
    """(name, column) pairs of a DataFrame without touching its attribute machinery."""
    return list(dict.items(df))

def frame_cells(df):
    """dict name -> canonical cells (ordered)."""
    return {k: col_cells(v) for k, v in dict.items(df)}

def frame_rows(df, names=None):
    cols = frame_cells(df)
    names = list(cols) if names is None else names
    if not names:
        return []
    return list(zip(*[cols[n] for n in names]))

def frame_nrow(df):
    for k, v in dict.items(df):
        return int(np.asarray(v).shape[0]) if np.asarray(v).ndim else -1
    return 0

def num_close(a, b, rel=1e-9, abs_=1e-12):
    if a == b:
        return True
    if isinstance(a, float) or isinstance(b, float):
        fa, fb = float(a), float(b)
        if math.isinf(fa) or math.isinf(fb):
            return fa == fb
        return abs(fa - fb) <= max(abs_, rel * max(abs(fa), abs(fb)))
    return False

def cell_eq(a, b, widen=False, tol=None):
    """
    Equality of canonical cells. widen: an int expected cell may have been
    stored as float (int -> float64 widening when a column must hold NA), and
    bool may have been stored in an object column unchanged.
    tol: (rel, abs) for computed statistics.
    """
    if a == b and a[0] == b[0]:
        return True
    if a is NA or b is NA or a == NA or b == NA:
        return a == b
    if a[0] == "N" and b[0] == "N":
        if tol is not None:
            return num_close(a[1], b[1], *tol)
        if a[1] == b[1]:
            return True
        if widen:
            try:
                return float(a[1]) == float(b[1])
            except OverflowError:
                return False
        return False
    return False

def cells_eq(xs, ys, **kw):
    return len(xs) == len(ys) and all(cell_eq(x, y, **kw) for x, y in zip(xs, ys))

def first_diff(xs, ys, **kw):
    if len(xs) != len(ys):
        return ("len", len(xs), len(ys))
    for i, (x, y) in enumerate(zip(xs, ys)):
        if not cell_eq(x, y, **kw):
            return (i, x, y)
    return None

def short(x, n=300):
    s = repr(x)
    return s if len(s) <= n else s[:n] + "..."
