# -*- coding: utf-8 -*-
"""
Textbook reference statistics for the aggregation helpers (C07, C08 anchor).
Inputs are canonical cells (vmon.canon); numbers are handled exactly
(fractions.Fraction) wherever possible so that the reference itself never
loses precision; results are canonical cells again.
"""

import math

from fractions import Fraction
from vmon import canon

NA = canon.NA

NUMERIC = ("mean", "median", "quantile", "std", "var", "sum")
NEEDS = {"mean": 1, "median": 1, "quantile": 1, "std": 2, "var": 2, "min": 1, "max": 1, "mode": 1, "first": 1, "last": 1, "nth": 1,
         "sum": 0, "count": 0, "count_unique": 0, "all": 0, "any": 0}
DROP_NA_DEFAULT = {"all": None, "any": None, "count": False, "count_unique": False, "first": False, "last": False, "nth": False,
                   "min": True, "max": True, "mode": True, "mean": True, "median": True, "quantile": True, "std": True, "var": True, "sum": True}

def _num(c):
    v = c[1]
    if c[0] == "B":
        return int(v)
    return v

def _frac(v):
    return Fraction(v)

def _float(fr):
    try:
        return float(fr)
    except OverflowError:
        return math.inf if fr > 0 else -math.inf

def default_for(helper):
    """Expected result for a group with too few elements: 'NA' means any missing representation."""
    if helper in ("mean", "median", "quantile", "std", "var", "min", "max", "mode", "first", "last", "nth"):
        return NA
    if helper in ("sum", "count", "count_unique"):
        return ("N", 0)
    if helper == "all":
        return ("B", True)
    if helper == "any":
        return ("B", False)
    raise ValueError(helper)

def stat(helper, cells, drop_na=None, ddof=0, index=None, q=None, na_truthy=None):
    """
    Reference value of helper over `cells` (canonical cells in group order).
    Returns a canonical cell, or the string 'UNSPECIFIED' where the statement
    does not fix the answer.
    """
    if drop_na is None:
        drop_na = DROP_NA_DEFAULT[helper]
    has_na = any(c == NA for c in cells)
    if helper in ("all", "any"):
        # truthiness of each element; a missing float is NaN (truthy), a missing string is "" (falsy)
        if any(c != NA and c[0] not in "BNS" for c in cells):
            return "UNSPECIFIED"
        if has_na and na_truthy is None:
            return "UNSPECIFIED"
        vals = [na_truthy if c == NA else bool(c[1]) for c in cells]
        return ("B", all(vals) if helper == "all" else any(vals))
    xs = [c for c in cells if c != NA] if drop_na else list(cells)
    if helper == "count":
        return ("N", len(xs))
    if helper == "count_unique":
        if has_na and not drop_na:
            return "UNSPECIFIED"
        seen = []
        for c in xs:
            if not any(canon.cell_eq(c, s) for s in seen):
                seen.append(c)
        return ("N", len(seen))
    if helper in ("first", "last", "nth"):
        i = 0 if helper == "first" else (-1 if helper == "last" else index)
        try:
            return xs[i]
        except IndexError:
            return NA
    if len(xs) < NEEDS[helper]:
        return default_for(helper)
    if helper == "mode":
        if has_na and not drop_na:
            return "UNSPECIFIED"
        best, bestn = None, 0
        for c in xs:
            n = sum(1 for d in xs if canon.cell_eq(c, d))
            if n > bestn:
                best, bestn = c, n
        return best
    kept_na = (not drop_na) and has_na
    if helper in ("min", "max"):
        if kept_na:
            if all(c == NA or c[0] in "N" for c in cells):
                return NA            # numeric reduction: missing propagates
            return "UNSPECIFIED"     # dates / strings with kept NA: not fixed by the statement
        vals = [c for c in xs]
        pick = min if helper == "min" else max
        best = pick(vals, key=lambda c: _num(c) if c[0] in "BN" else c[1])
        # preserve the cell kind (bool stays bool)
        return best
    # numeric reductions
    if any(c != NA and c[0] not in "BN" for c in cells):
        return "UNSPECIFIED"
    if kept_na:
        return NA
    nums = [_num(c) for c in xs]
    if any(isinstance(v, float) and math.isinf(v) for v in nums):
        # IEEE arithmetic fixes sum, mean and the middle element(s): +inf and -inf together give NaN, one kind alone wins
        pos = sum(1 for v in nums if isinstance(v, float) and v == math.inf)
        neg = sum(1 for v in nums if isinstance(v, float) and v == -math.inf)
        if helper in ("sum", "mean") and len(nums) >= 1:
            if pos and neg: return NA
            return ("N", math.inf if pos else -math.inf)
        if helper == "median" and len(nums) >= 1:
            srt = sorted(nums)
            k = len(srt)
            mid = [srt[k // 2]] if k % 2 else [srt[k // 2 - 1], srt[k // 2]]
            if any(math.isinf(v) for v in mid if isinstance(v, float)):
                if len(mid) == 2 and isinstance(mid[0], float) and isinstance(mid[1], float) and math.isinf(mid[0]) and math.isinf(mid[1]) and mid[0] != mid[1]:
                    return NA
                infs = [v for v in mid if isinstance(v, float) and math.isinf(v)]
                return ("N", infs[0])
            return ("N", float(sum(_frac(v) for v in mid) / len(mid)))
        return "UNSPECIFIED"
    fr = [_frac(v) for v in nums]
    n = len(fr)
    if helper == "sum":
        s = sum(fr, Fraction(0))
        if all(isinstance(v, int) for v in nums):
            return ("N", int(s))
        return ("N", _float(s))
    if helper == "mean":
        return ("N", _float(sum(fr, Fraction(0)) / n))
    if helper in ("median", "quantile"):
        qq = Fraction(1, 2) if helper == "median" else Fraction(q)
        a = sorted(fr)
        pos = (n - 1) * qq
        lo = int(math.floor(pos))
        hi = min(lo + 1, n - 1)
        val = a[lo] + (a[hi] - a[lo]) * (pos - lo)
        return ("N", _float(val))
    if helper in ("var", "std"):
        if n - ddof <= 0:
            return "UNSPECIFIED"
        m = sum(fr, Fraction(0)) / n
        v = sum(((x - m) ** 2 for x in fr), Fraction(0)) / (n - ddof)
        if helper == "var":
            return ("N", _float(v))
        return ("N", math.sqrt(_float(v)))
    raise ValueError(helper)

def magnitude(cells):
    m = 1.0
    for c in cells:
        if c != NA and c[0] in "BN":
            v = abs(float(_num(c)))
            if not math.isinf(v) and v > m:
                m = v
    return m
