# -*- coding: utf-8 -*-
"""
Seeded generators of hostile values / columns / frames. A frame *spec* is pure
Python data (picklable, printable): a list of (name, kind, values) where values
are Python scalars with None marking a missing cell. build_frame() turns a spec
into a real dataiter.DataFrame from NumPy arrays (so that construction does not
depend on the type-guessing code that C10 judges).
"""

import datetime
import numpy as np

INT64_MIN = -2**63
INT64_MAX = 2**63 - 1

INT_SMALL = [-3, -1, 0, 1, 2, 3, 5, 7, 10]
INT_BIG = [2**53, -(2**53), 2**53 + 1, -(2**53 + 1), 2**62]
INT_EXT = [INT64_MIN, INT64_MAX]

FLOAT_SMALL = [-1.5, 0.0, -0.0, 0.5, 1.0, 2.0, 2.5, 3.25, 10.0, -7.0]
FLOAT_HOSTILE = [float("inf"), float("-inf"), 2.0**53, -2.0**53, 2.0**53 + 2, -(2.0**53 + 2),
                 1e300, -1e300, 5e-324, 0.1 + 0.2, 1 / 3, 1e-7, 123456.789]

STR_SHORT = ["a", "b", "ab", "abc", "abd", "B", "z", "ä", "日本", "a b", "0", "x1"]
_P = "p" * 47
STR_LONG = [_P + "aaa", _P + "aab", _P + "b" * 13, "q" * 50, "q" * 49 + "r", "w" * 75, _P + "ab"]
STR_NEAR50 = ["m" * 49, "m" * 50, "m" * 48 + "n", "m" * 51]
STR_UNI = ["é", "漢字", "ｗｉｄｅ", "ö", "é", "ß", "ı"]
STR_ASTRAL = ["\U0001F600", "\U0001F600a", "a\U0001F600", "\U00010000"]
STR_FFFF = ["￿", "￿a"]
STR_NULLISH = ["None", "nan", "NaN", "NA", "null", "NaT", "True", "inf", "0.0"]     # ordinary strings that look like missing / other types

DATES = [datetime.date(1970, 1, 1), datetime.date(1969, 12, 31), datetime.date(2000, 2, 29),
         datetime.date(2020, 12, 31), datetime.date(2021, 1, 3), datetime.date(2024, 2, 29),
         datetime.date(1900, 3, 1), datetime.date(2015, 12, 28), datetime.date(2016, 1, 3),
         datetime.date(1999, 12, 31), datetime.date(2009, 12, 31), datetime.date(2010, 1, 4)]
DATES_EXT = [datetime.date(1, 1, 1), datetime.date(9999, 12, 31), datetime.date(1000, 1, 1), datetime.date(999, 12, 31)]

def _dt(d, h=0, m=0, s=0, us=0):
    return datetime.datetime(d.year, d.month, d.day, h, m, s, us)

DATETIMES = [_dt(DATES[0]), _dt(DATES[1], 23, 59, 59, 999999), _dt(DATES[2], 12, 34, 56, 789000),
             _dt(DATES[3], 23, 59, 59), _dt(DATES[4], 0, 0, 1), _dt(DATES[5], 6, 30), _dt(DATES[6], 1, 2, 3, 4),
             _dt(DATES[7], 12), _dt(DATES[8], 0, 0, 0, 1), _dt(DATES[9], 23, 59, 59, 999999)]
DATETIMES_EXT = [_dt(DATES_EXT[0]), _dt(DATES_EXT[1], 23, 59, 59, 999999)]

KINDS_BASIC = ["bool", "int", "float", "str", "date", "datetime"]
KINDS_KEY = ["bool", "int", "float", "str", "lstr", "ustr", "date", "datetime", "obool"]
NA_CAPABLE = {"timedelta_ms", "datetime_s", "datetime_ms", "datetime_ns", "longdouble", "tstr", "onum", "omix", "float", "str", "lstr", "ustr", "date", "datetime", "obool", "obj", "ostr", "timedelta", "float32", "oint", "olist"}
NA_PATTERNS = ["none", "none", "some", "some", "first", "last", "all"]

def pool(rng, kind, hostile=0.25, tags=None):
    """Return a value pool for kind; with probability `hostile` include the hostile values."""
    if kind.endswith("_be"):
        return pool(rng, kind[:-3], hostile, tags)
    h = rng.random() < hostile
    if kind == "bool":
        return [True, False]
    if kind in ("int", "int32"):
        p = list(INT_SMALL)
        if kind == "int32":
            p += [16777217, 123456789, -2147483648, 2147483647]       # beyond the 24 bits a float32 holds exactly
        if kind == "int" and h:
            p += INT_BIG
            if tags is not None: tags.add("int_big")
            if rng.random() < 0.3:
                p += INT_EXT
                if tags is not None: tags.add("int_ext")
        return p
    if kind == "uint64":
        return [0, 1, 2, 5, 2**53, 2**53 + 1, 2**63, 2**64 - 1]
    if kind == "uint32":
        return [0, 1, 2, 5, 16777217, 2**31, 2**32 - 1]
    if kind in ("float", "float32"):
        p = list(FLOAT_SMALL)
        if kind == "float" and h:
            p += FLOAT_HOSTILE
            if tags is not None: tags.add("float_hostile")
        return p
    if kind in ("str", "ustr", "ostr", "tstr"):
        p = list(STR_SHORT)
        if h:
            p += STR_UNI
            if tags is not None: tags.add("str_unicode")
            r = rng.random()
            if r < 0.3:
                p += STR_ASTRAL
                if tags is not None: tags.add("str_astral")
            elif r < 0.4:
                p += STR_FFFF
                if tags is not None: tags.add("str_ffff")
            elif r < 0.6:
                p += STR_NULLISH
                if tags is not None: tags.add("str_nullish")
        return p
    if kind == "lstr":
        p = list(STR_LONG)
        r = rng.random()
        if r < 0.5:
            p += STR_SHORT[:4]
        if r < 0.25 or r > 0.8:
            p += STR_NEAR50
        return p
    if kind == "date":
        p = list(DATES)
        if h:
            p += DATES_EXT
            if tags is not None: tags.add("date_ext")
        return p
    if kind in ("datetime_s", "datetime_ms", "datetime_ns"):
        # the same instants in another unit (whole seconds for "s"); nanoseconds only span 1678-2261
        return [d.replace(microsecond=0) if kind == "datetime_s" else (d.replace(microsecond=(d.microsecond // 1000) * 1000) if kind == "datetime_ms" else d) for d in DATETIMES]
    if kind == "datetime":
        p = list(DATETIMES)
        if h:
            p += DATETIMES_EXT
            if tags is not None: tags.add("datetime_ext")
        return p
    if kind == "obool":
        return [True, False]
    if kind == "oint":
        return [2, 10, 100, 9, -5, 0, 33]        # object column of ints: value order differs from the order of str(value)
    if kind == "olist":
        return [[1], [1, 2], [2], [0, 5], [1, 0], [10]]       # object column of comparable but unhashable values (lists)
    if kind == "longdouble":
        return [(1.0, 0), (1.0, 1), (1.0, 2), (2.5, 0), (-3.0, 0), (-3.0, 1), (0.5, 0)]
    if kind == "onum":
        return [1, 1.0, 2, 2.5, 2.0, -3, 0, 0.0]      # object column of numbers: equal values that print differently
    if kind == "omix":
        return [1, "1", 2.5, "2.5", "None", "a", 2, "nan"]      # object column of mixed types: different values that print alike
    if kind == "timedelta_ms":
        return [datetime.timedelta(0), datetime.timedelta(days=1), datetime.timedelta(seconds=-5), datetime.timedelta(days=400, milliseconds=7)]
    if kind == "timedelta":
        return [datetime.timedelta(0), datetime.timedelta(days=1), datetime.timedelta(seconds=-5), datetime.timedelta(days=400, microseconds=7)]
    if kind == "bytes":
        return [b"a", b"bc", b"", b"zzz"]
    if kind == "complex":
        return [1 + 2j, 0j, -1.5j, 3 + 0j]
    if kind == "obj":
        return [1, "a", (1, 2), {"k": 1}, [1, 2], 2.5, True]
    raise ValueError(kind)

def gen_values(rng, kind, n, na="none", dup="few", hostile=0.25, tags=None):
    """n values of kind with the requested NA and duplicate patterns (None = NA)."""
    p = pool(rng, kind, hostile, tags)
    if dup == "equal":
        v = rng.choice(p)
        vals = [v] * n
    elif dup == "distinct":
        q = list(p)
        rng.shuffle(q)
        vals = [q[i % len(q)] for i in range(n)]
    else:
        k = rng.randint(1, min(4, len(p)))
        sub = rng.sample(p, k)
        vals = [rng.choice(sub) for _ in range(n)]
    if (kind[:-3] if kind.endswith("_be") else kind) not in NA_CAPABLE:
        na = "none"
    if n and na != "none":
        if na == "all":
            vals = [None] * n
        elif na == "first":
            vals[0] = None
        elif na == "last":
            vals[-1] = None
        elif na == "some":
            for i in range(n):
                if rng.random() < 0.3:
                    vals[i] = None
    return vals

def np_column(kind, values):
    """Build the NumPy array for (kind, values) without going through dataiter."""
    import dataiter as di
    n = len(values)
    if kind.endswith("_be"):
        # the same values stored in non-native (big-endian) byte order, as arrays read from FITS / netCDF / network-order files are
        a = np_column(kind[:-3], values)
        return a.astype(a.dtype.newbyteorder(">"))
    if kind == "bool":
        return np.array(values, dtype=bool)
    if kind == "int":
        return np.array(values, dtype=np.int64)
    if kind == "int32":
        return np.array(values, dtype=np.int32)
    if kind == "uint64":
        return np.array(values, dtype=np.uint64)
    if kind in ("uint8", "int16", "uint16", "int8", "uint32"):
        return np.array(values, dtype=kind)
    if kind in ("datetime_s", "datetime_ms", "datetime_ns"):
        unit = kind.split("_")[1]
        return np.array(["NaT" if v is None else v.isoformat() for v in values], dtype=f"datetime64[{unit}]")
    if kind in ("float", "float32"):
        a = np.array([np.nan if v is None else v for v in values], dtype=np.float64)
        return a.astype(np.float32) if kind == "float32" else a
    if kind == "longdouble":
        # extended precision: a value is (double, k) meaning double + k * 2**-60 (distinct only beyond double precision)
        return np.array([np.nan if v is None else np.longdouble(v[0]) + np.longdouble(v[1]) * np.longdouble(2) ** -60 for v in values], dtype=np.longdouble)
    if kind in ("str", "lstr"):
        return np.array(["" if v is None else v for v in values], dtype=di.dtypes.string)
    if kind == "tstr":
        # variable-width strings created by NumPy itself (dtype "T": another StringDType instance than the library's own)
        return np.array(["" if v is None else v for v in values], dtype=np.dtypes.StringDType())
    if kind == "ustr":
        vs = ["" if v is None else v for v in values]
        w = max([len(v) for v in vs] + [1])
        return np.array(vs, dtype=f"U{w}")
    if kind == "date":
        return np.array(["NaT" if v is None else v.isoformat() for v in values], dtype="datetime64[D]")
    if kind == "datetime":
        return np.array(["NaT" if v is None else v.isoformat() for v in values], dtype="datetime64[us]")
    if kind == "timedelta":
        a = np.array([np.timedelta64("NaT") if v is None else np.timedelta64(v) for v in values] or [], dtype="timedelta64[us]")
        return a
    if kind == "timedelta_ms":
        return np_column("timedelta", values).astype("timedelta64[ms]")
    if kind == "bytes":
        return np.array(values, dtype="S3") if n else np.array([], dtype="S1")
    if kind == "complex":
        return np.array(values, dtype=np.complex128)
    if kind in ("obool", "obj", "ostr", "oint", "onum", "omix", "olist"):
        a = np.empty(n, dtype=object)
        for i, v in enumerate(values):
            a[i] = v
        return a
    raise ValueError(kind)

def build_frame(spec, cls=None):
    """Real dataiter.DataFrame from a spec (dict argument: any string can be a column name)."""
    import dataiter as di
    cls = cls or di.DataFrame
    return cls({name: np_column(kind, values) for name, kind, values in spec})

def expected_cells(kind, values):
    """Canonical cells a column built from (kind, values) must hold."""
    from vmon import canon
    out = []
    for v in values:
        if v is None:
            out.append(canon.NA)
        elif kind == "longdouble":
            out.append(canon.canon_obj(np.longdouble(v[0]) + np.longdouble(v[1]) * np.longdouble(2) ** -60))
        elif kind in ("float", "float32", "float_be"):
            out.append(canon.canon_obj(float(np.float32(v)) if kind == "float32" else float(v)))
        else:
            out.append(canon.canon_obj(v, string_na=kind in ("str", "lstr", "ustr", "tstr")))
    return out

NROW_CLASSES = [0, 1, 2, "small", "small", "small", "mid"]

def gen_nrow(rng, big=False):
    c = rng.choice(NROW_CLASSES)
    if c == "small":
        return rng.randint(3, 8)
    if c == "mid":
        return rng.randint(9, 40) if not big else rng.randint(9, 120)
    return c

def nrow_class(n):
    return str(n) if n <= 2 else ("3-8" if n <= 8 else "9+")

def gen_frame_spec(rng, nrow=None, kinds=None, ncol=None, names=None, rid=None, hostile=0.25, tags=None, na_patterns=None):
    """Random frame spec. rid: name of an int row-id column to prepend."""
    kinds = kinds or KINDS_KEY
    if nrow is None:
        nrow = gen_nrow(rng)
    if ncol is None:
        ncol = rng.randint(1, 5)
    spec = []
    if rid:
        spec.append((rid, "int", list(range(nrow))))
    for j in range(ncol):
        kind = rng.choice(kinds)
        na = rng.choice(na_patterns or NA_PATTERNS)
        dup = rng.choice(["few", "few", "distinct", "equal"])
        name = names[j] if names else f"c{j}"
        spec.append((name, kind, gen_values(rng, kind, nrow, na, dup, hostile, tags)))
    return spec

def spec_sig(spec):
    return ",".join(f"{k}{'?' if any(v is None for v in vals) else ''}" for _, k, vals in spec)
