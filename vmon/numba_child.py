# -*- coding: utf-8 -*-
"""
C08 child: runs in a FRESH interpreter with a NUMBA_CACHE_DIR chosen by the
parent. Executes a scenario (JSON on argv[1]):

  {"prefix": [[helper, kw, kind], ...],     first uses, executed with USE_NUMBA=True in this order
   "probes": [[helper, kw, kind], ...],     evaluated under USE_NUMBA True and False on a fixed battery of frames
   "random": {"seed": s, "n": N, "kinds": [...]}   optional: N generated frames x random helper, both settings
  }

and prints one JSON document: per evaluation the implementation selected
(observed by wrapping dataiter.aggregate.use_numba), dispatcher cache
hits/misses, and every disagreement (dtype / NA mask / value).
"""

import json
import math
import os
import random
import sys

def main():
    scenario = json.loads(sys.argv[1])
    import faulthandler
    faulthandler.enable()
    import numpy as np
    import dataiter as di
    from dataiter import aggregate as agg
    from vmon import canon, gen
    out = {"use_numba_at_import": bool(di.USE_NUMBA), "use_numba_cache": bool(di.USE_NUMBA_CACHE), "file": di.__file__,
           "cache_dir": os.environ.get("NUMBA_CACHE_DIR"), "records": 0, "numba_selected": 0, "python_selected_under_on": 0,
           "disagreements": [], "errors": [], "evals": []}
    if not di.USE_NUMBA:
        print(json.dumps(out))
        return
    selected = {"on": 0, "off": 0}
    real_use = agg.use_numba
    def use_numba_probe(x):
        r = real_use(x)
        selected["on" if r else "off"] += 1
        return r
    agg.use_numba = use_numba_probe

    def frames_for(kind):
        # three fixed layouts: mixed groups, a default-yielding (all-missing) group, one big group
        def col(vals):
            return vals
        narrow = None
        if kind in ("int32", "uint8", "int16", "uint64", "float32", "datetime_s", "datetime_ms", "datetime_ns", "int_be", "float_be", "datetime_be", "date_be"):
            narrow = kind
            kind = {"float32": "floatna", "float_be": "floatna", "date_be": "date"}.get(kind, "datetime" if kind.startswith("datetime_") else "int")
        if kind == "bool":
            a = [True, False, True, True, False, False, True, False, True]
            b = a
        elif kind == "int":
            a = [3, 1, 1, 2, 2, 2, -5, 7, 7]
            b = a
        elif kind == "floatna":
            a = [1.5, None, 0.5, 0.5, None, 2.25, -1.0, 3.0, 3.0]
            b = [None, None, 0.5, 0.5, 0.25, 2.25, -1.0, 3.0, 3.0]
        elif kind == "float":
            a = [1.5, 4.0, 0.5, 0.5, 0.25, 2.25, -1.0, 3.0, 3.0]
            b = a
        else:
            import datetime
            base = [datetime.date(2020, 1, 5), None, datetime.date(2019, 12, 31), datetime.date(2019, 12, 31), None,
                    datetime.date(2021, 6, 1), datetime.date(1969, 12, 31), datetime.date(2000, 2, 29), datetime.date(2000, 2, 29)]
            if kind == "datetime":
                base = [None if d is None else datetime.datetime(d.year, d.month, d.day, 12, 30, 15, 250000) for d in base]
            a = base
            b = [None, None] + base[2:]
        k = {"floatna": "float"}.get(kind, kind)
        # layout 4: interleaved ties (first-encountered value completes last), for tie-break sensitive helpers
        ties_g = [1, 1, 1, 1, 2, 2, 2, 2, 2, 3, 3, 3, 3, 3, 3]
        ties_i = [1, 2, 2, 1, 7, 5, 3, 3, 7, 9, 8, 6, 8, 6, 9]
        if k == "bool":
            ties_v = [bool(v % 2) for v in ties_i]
        elif k == "int":
            ties_v = ties_i
        elif k == "float":
            ties_v = [v + 0.5 for v in ties_i]
        else:
            import datetime as _dt
            ties_v = [(_dt.date(2020, 1, 1) + _dt.timedelta(days=v)) if k == "date" else _dt.datetime(2020, 1, 1, 12, 0, v) for v in ties_i]
        # layout 5: one big group (> 128 rows: size-dependent kernels) with a tie whose first-encountered value is not the smallest
        # (two groups of > 1000 rows as well: sort-based counting with an unstable sort shows only there)
        big_g = [1] * 300 + [2] * 3 + [3] * 1400 + [4] * 1200
        big_i = [7, 3] * 150 + [5, 5, 4] + [7, 3] * 700 + [9, 5, 5, 9] * 300
        if k == "bool":
            big_v = [bool(v % 2 == 1 and v != 3) for v in big_i]
        elif k == "int":
            big_v = big_i
        elif k == "float":
            big_v = [v + 0.25 for v in big_i]
        else:
            import datetime as _dt2
            big_v = [(_dt2.date(2021, 3, 1) + _dt2.timedelta(days=v)) if k == "date" else _dt2.datetime(2021, 3, 1, 8, 0, v) for v in big_i]
        # layout 6: large offset relative to the spread (cancellation-prone one-pass formulas), numeric kinds only
        off_g = [1, 1, 1, 2, 2, 2, 2, 3, 3]
        off_i = [0, 1, 2, 10, 20, 30, 40, 7, 7]
        if k == "int":
            off_v = [1700000000 + v for v in off_i]
        elif k == "float":
            off_v = [1.7e9 + v + 0.5 for v in off_i]
        else:
            off_v = None
        # layout 7 (float only): infinities inside groups (inf - inf and 0 * inf arise in interpolating / accumulating formulas)
        inf_g = [1, 1, 1, 2, 2, 3, 3, 3, 4, 4, 5, 5, 5, 5]
        inf_v = [1.0, math.inf, 3.0, -math.inf, 2.0, math.inf, -math.inf, 1.0, math.inf, math.inf, 1.0, 2.0, math.inf, 4.0] if k == "float" else None
        g1 = [2, 1, 1, 3, 3, 3, 1, 2, 2]
        g2 = [1, 1, 2, 2, 2, 3, 3, 3, 3]
        g3 = [5] * 9
        empty = [[("g", "int", []), ("x", narrow or k, [])]]
        if k in ("float", "date", "datetime") and (narrow or "") not in ("int_be",):
            # a column that is missing throughout: every group yields the helper's default
            empty = empty + [[("g", "int", [1, 1, 2, 2, 3, 3]), ("x", narrow or k, [None] * 6)]]      # a frame left with no rows (e.g. after a filter that matched nothing)
        if narrow:
            # the same layouts in a narrower / differently-united dtype of the same family
            if narrow.startswith("datetime_") and narrow != "datetime_be":
                a = [None if d is None else d.replace(microsecond=0) for d in a]
                b = [None if d is None else d.replace(microsecond=0) for d in b]
            elif narrow.endswith("_be"):
                pass
            elif narrow != "float32":
                a = [abs(v) for v in a]; b = [abs(v) for v in b]
            return [[("g", "int", g1), ("x", narrow, a)], [("g", "int", g2), ("x", narrow, b)], [("g", "int", g3), ("x", narrow, a)]] + empty
        return [[("g", "int", g1), ("x", k, a)], [("g", "int", g2), ("x", k, b)], [("g", "int", g3), ("x", k, a)], [("g", "int", ties_g), ("x", k, ties_v)], [("g", "int", big_g), ("x", k, big_v)]] + ([[("g", "int", off_g), ("x", k, off_v)]] if off_v else []) + ([[("g", "int", inf_g), ("x", k, inf_v)]] if inf_v else []) + empty

    helper_objects = {}
    def make(h, ha, hk):
        # helper objects are reused across calls, frames and dtypes in this process (users keep e.g. a dict of summaries around)
        key = (h, repr(ha), repr(sorted(hk.items())))
        if key not in helper_objects:
            helper_objects[key] = getattr(di, h)("x", *ha, **hk)
        return helper_objects[key]

    def run(helper, kw, spec, numba_on):
        di.USE_NUMBA = numba_on
        df = gen.build_frame(spec)
        f = getattr(di, helper) if helper != "multi" else None
        kws = dict(kw)
        args = []
        if helper == "nth": args.append(kws.pop("index"))
        if helper == "quantile": args.append(kws.pop("q"))
        before = dict(selected)
        try:
            if helper == "multi":
                # several helpers on the same column in ONE aggregate() call: a kernel must not disturb what the next one sees
                fs = {}
                for j, (h, hkw) in enumerate(kw["helpers"]):
                    hk = dict(hkw); ha = []
                    if h == "nth": ha.append(hk.pop("index"))
                    if h == "quantile": ha.append(hk.pop("q"))
                    fs[f"y{j}"] = make(h, ha, hk)
                res = df.group_by("g").aggregate(**fs)
                cells, kinds, dts = [], [], []
                for name in fs:
                    y = dict.__getitem__(res, name)
                    cells += canon.col_cells(y); kinds.append(canon.dtype_kind(y)); dts.append(str(np.asarray(y).dtype))
                val = {"dtype": ",".join(dts), "kind": ",".join(kinds), "cells": cells}
            else:
                res = df.group_by("g").aggregate(y=make(helper, args, kws))
                y = dict.__getitem__(res, "y")
                val = {"dtype": str(np.asarray(y).dtype), "kind": canon.dtype_kind(y), "cells": canon.col_cells(y)}
        except Exception as e:
            val = {"error": type(e).__name__ + ": " + str(e)[:200]}
        val["sel_on"] = selected["on"] - before["on"]
        val["sel_off"] = selected["off"] - before["off"]
        return val

    def compare(tag, helper, kw, kind, spec):
        on = run(helper, kw, spec, True)
        off = run(helper, kw, spec, False)
        out["records"] += 1
        if on["sel_on"] > 0:
            out["numba_selected"] += 1
        else:
            out["python_selected_under_on"] += 1
        diff = None
        if ("error" in on) != ("error" in off):
            diff = "one-raises"
        elif "error" in on:
            diff = None
        else:
            mag = 1.0
            for c in off["cells"]:
                if c != canon.NA and c[0] == "N" and isinstance(c[1], (int, float)) and not (isinstance(c[1], float) and math.isinf(c[1])):
                    mag = max(mag, abs(float(c[1])))
            # "up to floating-point rounding": inputs beyond 2**53 are themselves rounded when one implementation goes through float64
            # before the other does, so the absolute slack also scales with the magnitude of the column (a few ulp of the largest input)
            mag_in = 0.0
            for name, _, vals in spec:
                if name == "x":
                    for xv in vals:
                        if isinstance(xv, (int, float)) and not isinstance(xv, bool) and xv == xv and not math.isinf(xv):
                            mag_in = max(mag_in, abs(float(xv)))
            tol = (1e-9, max(1e-9 * mag, 16 * 2.220446049250313e-16 * mag_in))
            na_on = [c == canon.NA for c in on["cells"]]
            na_off = [c == canon.NA for c in off["cells"]]
            if len(on["cells"]) != len(off["cells"]):
                diff = "length"
            elif na_on != na_off:
                diff = "na-positions"
            elif not canon.cells_eq(on["cells"], off["cells"], widen=True, tol=tol):
                diff = "values"
            elif on["dtype"] != off["dtype"]:
                diff = "result-type"
        if diff:
            has_inf = any(isinstance(v, float) and math.isinf(v) for name, _, vals in spec if name == "x" for v in vals)
            out["disagreements"].append({"tag": tag, "helper": helper, "kw": kw, "kind": kind, "diff": diff, "inf": has_inf,
                                         "on": {k: (repr(v)[:400] if k == "cells" else v) for k, v in on.items()},
                                         "off": {k: (repr(v)[:400] if k == "cells" else v) for k, v in off.items()},
                                         "spec": repr(spec)[:700]})
        out["evals"].append([tag, helper, kind, on["sel_on"], diff])

    # dispatcher statistics before (cache state)
    for i, (helper, kw, kind) in enumerate(scenario.get("prefix", [])):
        spec = frames_for(kind)[0]
        r = run(helper, kw, spec, True)
        if "error" in r:
            out["errors"].append({"prefix": i, "helper": helper, "kind": kind, "error": r["error"]})
    for helper, kw, kind in scenario.get("probes", []):
        for li, spec in enumerate(frames_for(kind)):
            compare(f"probe:L{li}", helper, kw, kind, spec)
    rnd = scenario.get("random")
    if rnd:
        from vmon.props import c07
        rng = random.Random(rnd["seed"])
        n = 0
        while n < rnd["n"]:
            case = c07.generate(rng, "quick")
            if case["kind"] not in rnd["kinds"]:
                continue
            n += 1
            spec = [("g", "int", [g for g, _ in case["rows"]]), ("x", case["kind"], [v for _, v in case["rows"]])]
            kind = case["kind"]
            compare("random", case["helper"], case["kw"], kind, spec)
    # which dispatchers were compiled here vs loaded from the on-disk cache
    stats = {}
    try:
        for name in ("count_unique_apply_numba", "mode_apply_numba", "nth_apply_numba", "quantile_apply_numba", "yield_groups_numba", "is_na_numba"):
            d = getattr(agg, name)
            st = d.stats
            stats[name] = {"hits": sum(st.cache_hits.values()), "misses": sum(st.cache_misses.values()), "sigs": len(d.signatures)}
    except Exception as e:
        stats["error"] = repr(e)
    out["dispatchers"] = stats
    out["evals"] = out["evals"][:40]
    print("CHILD-JSON:" + json.dumps(out, default=str))

if __name__ == "__main__":
    main()
