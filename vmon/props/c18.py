# -*- coding: utf-8 -*-
"""
C18 - GeoJSON read/write is faithful to the feature collection.

Oracle: direct comparison against the Python object the file was made from
(json.dump by the harness), json.load of the file written by the library, and
the re-read frame against the first one.
"""

import json
import os

import numpy as np

from vmon import canon
from vmon.res import Result, exc_name, capture_stdout

ID = "C18"
LEVEL = "exploration"
CASES = {"quick": 3000, "thorough": 240000}
RULE = ("seeded random FeatureCollections: 0-8 features, heterogeneous property key sets, per-key value type in {bool,int,float,str}+null, "
        "geometries Point/LineString/Polygon/MultiPolygon/GeometryCollection/null, extra top-level members with arbitrary nested JSON values "
        "and arbitrary names (spaces, quotes, backslashes, non-ASCII), indent in {default,0,1,4,None}, plain and compressed paths; non-trivial "
        "= >= 2 features or an extra member; distinct = distinct (feature count class, property kinds, geometry kinds, member-name class, indent, suffix)")
ASSUMPTIONS = [
    "not generated: a property literally named 'geometry', keys with mixed value types across features, empty-string property values (the library's string NA is '')",
    "numbers compare by value (1 == 1.0), booleans strictly",
]
REACH = {"quick": {"features:0": 100, "null-geometry": 300, "hostile-member-name": 300, "ragged-properties": 800, "suffix:compressed": 500, "written-json-parsed": 2500, "features:>1000": 3}}

GEOMS = [{"type": "Point", "coordinates": [24.94, 60.17]}, {"type": "LineString", "coordinates": [[0, 0], [1.5, 2]]},
         {"type": "Polygon", "coordinates": [[[0, 0], [1, 0], [1, 1], [0, 0]]]}, {"type": "MultiPolygon", "coordinates": [[[[0, 0], [1, 0], [1, 1], [0, 0]]]]},
         {"type": "GeometryCollection", "geometries": [{"type": "Point", "coordinates": [1, 2]}]}, None, {},
         {"type": "GeometryCollection", "geometries": []}]        # ({} and empty collections: falsy, but not null)
MEMBER_NAMES = ["name", "crs", "bbox", "x-meta", "with space", 'quo"te', "back\\slash", "ünï", "日本", "tab\tname", "new\nline", "a/b",
                "feature", "feat", "s", "t", "e", "", "typ", "Features", "properties", "geometry"]
MEMBER_VALUES = ["text", 3, 2.5, True, None, [1, "a", None, {"k": [1.5]}], {"type": "name", "properties": {"name": "urn:ogc:def:crs:OGC:1.3:CRS84"}},
                 {"nested": {"deep": [1, {"x": 'q"uote'}]}}, "back\\slash \"q\"", [0.0, 1.0, 2.0, 3.0],
                 # characters some text utilities treat as line boundaries, at several depths
                 "ls\u2028sep", {"deep": ["ps\u2029x", {"y": "nel\x85z"}]}, ["a\u2028b"]]

def generate(rng, tier):
    nf = rng.choice([0, 1, 2, 3, 5, 8])
    if rng.random() < 0.009:
        nf = rng.choice([1001, 1500, 2500])      # size-dependent writer/reader paths
    # incl. names that are not in Unicode normal form (decomposed accent, compatibility characters): distinct keys stay distinct and unchanged
    keys = rng.sample(["id", "name", "pop", "ratio", "flag", "a b", "ünï", "e\u0301", "\u00e9", "\u00b5m", "\ufb01x",
                       # property keys named like attributes / reserved members of the object they are read into
                       "metadata", "type", "properties", "features"], rng.randint(0, 5))
    kinds = {k: rng.choice(["bool", "int", "float", "str"]) for k in keys}
    pools = {"bool": [True, False], "int": [0, 1, -5, 10**12, 2**64 + 5, -(2**63) - 7], "float": [0.5, -2.25, 1e-7, 3.0], "str": ["x", "a b", 'q"uote', "ünï", "back\\slash", "line\nbreak", "ls\u2028sep", "e\u0301"]}
    feats = []
    for i in range(nf):
        props = {}
        for k in keys:
            r = rng.random()
            if r < 0.2: continue
            props[k] = None if r < 0.35 else rng.choice(pools[kinds[k]])
        if not props and rng.random() < 0.4:
            props = None        # RFC 7946: "properties" is an object or null
        feats.append({"type": "Feature", "properties": props, "geometry": copy_geom(rng.choice(GEOMS))})
    doc = {"type": "FeatureCollection"}
    for name in rng.sample(MEMBER_NAMES, rng.choice([0, 0, 1, 2, 3])):
        doc[name] = rng.choice(MEMBER_VALUES)
    doc["features"] = feats
    if rng.random() < 0.3:
        # features not last in the file
        doc["after"] = rng.choice(MEMBER_VALUES)
    indent = rng.choice(["default", "default", 0, 1, 4, None])
    display = rng.random() < 0.4
    return {"doc": doc, "kinds": kinds, "indent": indent, "suffix": rng.choice(["", "", "", ".gz", ".bz2", ".xz"]), "display": display}

def copy_geom(g):
    return json.loads(json.dumps(g))

def jeq(a, b):
    """JSON value equality: numbers by value, bools strictly, absent == null handled by the caller."""
    if isinstance(a, bool) or isinstance(b, bool):
        return isinstance(a, bool) and isinstance(b, bool) and a == b
    if isinstance(a, (int, float)) and isinstance(b, (int, float)):
        return a == b
    if isinstance(a, dict) and isinstance(b, dict):
        return list(a) == list(b) and all(jeq(a[k], b[k]) for k in a) if set(a) == set(b) else False
    if isinstance(a, list) and isinstance(b, list):
        return len(a) == len(b) and all(jeq(x, y) for x, y in zip(a, b))
    return type(a) is type(b) and a == b

def jeq_unordered(a, b):
    if isinstance(a, dict) and isinstance(b, dict):
        return set(a) == set(b) and all(jeq_unordered(a[k], b[k]) for k in a)
    if isinstance(a, list) and isinstance(b, list):
        return len(a) == len(b) and all(jeq_unordered(x, y) for x, y in zip(a, b))
    return jeq(a, b)

def execute(case):
    import dataiter as di
    doc, indent, suffix = case["doc"], case["indent"], case["suffix"]
    # expectations are phrased over features whose null properties read as "no properties"
    feats = [dict(f, properties=f["properties"] or {}) for f in doc["features"]]
    null_props = any(f["properties"] is None for f in doc["features"])
    nf = len(feats)
    members = {k: v for k, v in doc.items() if k not in ("type", "features")}
    hostile = any(any(ch in k for ch in '"\\\t\n') or not k.isascii() for k in members)
    res = Result(sig=f"f{min(nf, 3)}|{sorted(case['kinds'].values())}|m{len(members)}h{int(hostile)}|i{indent}|{suffix}",
                 nontrivial=nf >= 2 or bool(members))
    res.cls(f"features:{nf if nf < 3 else '3+'}")
    if nf > 1000: res.cls("features:>1000")
    if any(f["geometry"] is None for f in feats): res.cls("null-geometry")
    if hostile: res.cls("hostile-member-name")
    if null_props: res.cls("null-properties")
    if suffix: res.cls("suffix:compressed")
    keys = []
    for f in feats:
        for k in f["properties"]:
            if k not in keys: keys.append(k)
    if any(set(f["properties"]) != set(keys) for f in feats): res.cls("ragged-properties")
    scratch = os.environ.get("VERIF_SCRATCH") or "/tmp"
    d = os.path.join(scratch, f"c18_{os.getpid()}")
    os.makedirs(d, exist_ok=True)
    for f in os.listdir(d): os.remove(os.path.join(d, f))
    src = os.path.join(d, "in.geojson")
    with open(src, "w", encoding="utf-8") as f:
        json.dump(doc, f, ensure_ascii=False)
    ctx = f"doc {canon.short(doc, 1200)}"
    try:
        with capture_stdout():
            data = di.GeoJSON.read(src)
    except Exception as e:
        res.violate(f"read:raised:{exc_name(e)}:{'no-features' if nf == 0 else 'plain'}", f"GeoJSON.read raised {e!r}; {ctx}")
        return res.dict()
    # ---- looking at the frame (str / to_string) must leave what was read untouched
    if case.get("display"):
        try:
            with capture_stdout():
                str(data); data.to_string(max_rows=2); data.print_(max_rows=1)
            res.cls("displayed-before-checks")
        except Exception:
            pass
    # ---- read clauses
    cols = dict(dict.items(data))
    if list(cols) != keys + ["geometry"]:
        res.violate("read:wrong-columns", f"columns {list(cols)} expected {keys + ['geometry']}; {ctx}")
        return res.dict()
    if canon.frame_nrow(data) != nf and not (nf == 0):
        res.violate("read:wrong-row-count", f"{canon.frame_nrow(data)} rows for {nf} features; {ctx}")
        return res.dict()
    for k in keys:
        cells = canon.col_cells(cols[k])
        exp = [canon.canon_obj(f["properties"].get(k), string_na=True) for f in feats]
        if not canon.cells_eq(cells, exp, widen=True):
            res.violate("read:property-values-differ", f"column {k!r}: {canon.first_diff(cells, exp, widen=True)}; {ctx}")
            return res.dict()
    geoms = np.asarray(cols["geometry"]).tolist() if nf else []
    if not all(jeq_unordered(g, f["geometry"]) for g, f in zip(geoms, feats)) or len(geoms) != nf:
        res.violate("read:geometry-changed", f"geometry column {canon.short(geoms, 400)}; {ctx}")
        return res.dict()
    meta = dict(data.metadata)
    exp_meta = {k: v for k, v in doc.items() if k != "features"}
    if not jeq_unordered(meta, exp_meta):
        res.violate("read:metadata-differs", f"metadata {canon.short(meta, 500)} expected {canon.short(exp_meta, 500)}")
        return res.dict()
    res.count("reads-checked")
    # ---- write clauses
    dst = os.path.join(d, "out.geojson" + suffix)
    kw = {} if indent == "default" else {"indent": indent}
    try:
        data.write(dst, **kw)
    except Exception as e:
        res.violate(f"write:raised:{exc_name(e)}", f"GeoJSON.write({kw}) raised {e!r}; {ctx}")
        return res.dict()
    # the monitor opens the written file itself (standard library only): a path ending in .gz / .bz2 / .xz holds that compression
    import bz2, gzip, lzma
    raw = open(dst, "rb").read()
    text = ""
    try:
        if suffix:
            try:
                raw = {".gz": gzip.decompress, ".bz2": bz2.decompress, ".xz": lzma.decompress}[suffix](raw)
            except Exception as e:
                res.violate(f"write:not-compressed:{suffix}", f"GeoJSON.write to a path ending in {suffix} wrote bytes starting {raw[:12]!r}, which do not decompress ({e!r})")
                return res.dict()
        text = raw.decode("utf-8")
        written = json.loads(text)
        res.count("written-json-parsed")
    except Exception as e:
        feat = "hostile-member-name" if hostile else "plain"
        res.violate(f"write:invalid-json:{feat}", f"written file is not valid JSON ({e!r}); members {list(members)}; text {text[:300]!r}")
        return res.dict()
    wf = written.get("features")
    if not isinstance(wf, list) or len(wf) != nf:
        res.violate("write:feature-count-differs", f"{len(wf) if isinstance(wf, list) else wf} features written for {nf}; {ctx}")
        return res.dict()
    for i, (w, f) in enumerate(zip(wf, feats)):
        wp = {k: v for k, v in (w.get("properties") or {}).items() if v is not None}
        fp = {k: v for k, v in f["properties"].items() if v is not None}
        if w.get("type") != "Feature" or not jeq_unordered(wp, fp) or not jeq_unordered(w.get("geometry"), f["geometry"]):
            res.violate("write:feature-differs", f"feature {i}: written {canon.short(w, 400)} original {canon.short(f, 400)}")
            return res.dict()
    wm = {k: v for k, v in written.items() if k != "features"}
    if not jeq_unordered(wm, exp_meta):
        res.violate("write:top-level-members-differ", f"written members {canon.short(wm, 500)} expected {canon.short(exp_meta, 500)}")
        return res.dict()
    # ---- re-read
    try:
        with capture_stdout():
            again = di.GeoJSON.read(dst)
    except Exception as e:
        res.violate(f"reread:raised:{exc_name(e)}", f"{e!r}; {ctx}")
        return res.dict()
    a, b = canon.frame_cells(data), canon.frame_cells(again)
    if list(a) != list(b) or any(not canon.cells_eq(a[k], b[k], widen=True) for k in a if k != "geometry"):
        res.violate("reread:frame-differs", f"first {canon.short(a, 500)} again {canon.short(b, 500)}; {ctx}")
    elif not jeq_unordered(dict(again.metadata), meta):
        res.violate("reread:metadata-differs", f"{canon.short(dict(again.metadata), 400)} vs {canon.short(meta, 400)}")
    res.count("roundtrips")
    return res.dict()
