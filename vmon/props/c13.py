# -*- coding: utf-8 -*-
"""
C13 - conversions to ListOfDicts, JSON, pandas and Arrow are invertible.

Oracle: after the round trip, the frame comparator (names, order, values, NA
positions, dtype family of bool/int/float/string columns with >= 1 non-missing
value); on the intermediate object: one record per row, one field per column,
and a missing value crossing as that format's null and never as a sentinel.
"""

import json
import math

import numpy as np

from vmon import canon, gen
from vmon.res import Result, exc_name

ID = "C13"
LEVEL = "exploration"
CASES = {"quick": 4000, "thorough": 320000}
RULE = ("seeded random frames with >= 1 row over bool/int/float/str/date/datetime (+ object bool-with-None) columns, NA patterns incl. first "
        "position and all-missing, hostile values, x {ListOfDicts, JSON text, pandas.DataFrame, pyarrow.Table}; non-trivial = every executed "
        "round trip; distinct = distinct (target, column kinds with NA flags, nrow class) signatures")
ASSUMPTIONS = [
    "dtype of date/datetime/object columns and of all-missing columns is not asserted",
    "JSON has no date type: a date/datetime column is read back with the documented dtypes= map; without a map it must come back as the ISO text of each value with null at NA",
]
REACH = {"quick": {"target:lod": 500, "target:json": 500, "target:pandas": 500, "target:arrow": 500, "na-first": 500, "all-missing-column": 200, "intermediate-checked": 3000}}

TARGETS = ["lod", "json", "pandas", "arrow"]

def generate(rng, tier):
    target = rng.choice(TARGETS)
    n = rng.choice([1, 1, 2, 3, 5, 9, 20])
    if rng.random() < 0.004:
        n = rng.choice([1100, 12000])
    kinds = ["bool", "int", "float", "str", "date", "datetime", "obool", "lstr"]
    spec = []
    for j in range(rng.randint(1, 5)):
        kind = rng.choice(kinds + (["uint64"] if target == "arrow" else []) + (["timedelta"] if target in ("arrow", "pandas") else []) + (["int32", "float32"] if rng.random() < 0.15 else []))
        na = rng.choice(["none", "some", "first", "first", "last", "all"])
        hostile = 0.3
        vals = gen.gen_values(rng, kind, n, na, rng.choice(["few", "distinct"]), hostile)
        if kind == "str" and rng.random() < 0.2:
            vals = [v if v is None or rng.random() < 0.5 else rng.choice(gen.STR_NULLISH) for v in vals]
        if kind == "str" and rng.random() < 0.1:
            # NUL characters inside and at the end of strings (fixed-width NumPy strings cannot hold trailing NULs)
            vals = [v if v is None or rng.random() < 0.5 else rng.choice(["ab\x00", "e\x00f", "\x00", "ab"]) for v in vals]
        if kind == "datetime" and rng.random() < 0.3 and all(v is None or 1700 < v.year < 2200 for v in vals):
            kind = "datetime_ns"       # the same instants held in nanoseconds (what pandas and some readers produce)
        spec.append((f"c{j}" if rng.random() < 0.85 else rng.choice(["a b", "items", "日本"]) + str(j), kind, vals))
    return {"target": target, "spec": spec, "json_map": rng.random() < 0.6}

def execute(case):
    import dataiter as di
    target, spec = case["target"], case["spec"]
    n = len(spec[0][2])
    res = Result(sig=f"{target}|{gen.spec_sig(spec)}|n{gen.nrow_class(n)}", nontrivial=True)
    res.cls(f"target:{target}")
    if any(vals[0] is None for _, _, vals in spec): res.cls("na-first")
    if any(all(v is None for v in vals) for _, _, vals in spec): res.cls("all-missing-column")
    df = gen.build_frame(spec)
    pre = canon.frame_cells(df)
    names = list(pre)
    kinds = {name: kind for name, kind, _ in spec}
    na_mask = {k: [c == canon.NA for c in v] for k, v in pre.items()}
    ctx = f"{target}: spec {canon.short(spec, 900)}"
    date_cols = {name: ("datetime64[D]" if kind == "date" else "datetime64[us]") for name, kind, _ in spec if kind in ("date", "datetime", "datetime_ns")}
    iso_expected = False
    try:
        if target == "lod":
            mid = df.to_list_of_dicts()
            items = [dict(x) for x in list.__iter__(mid)]
            if not isinstance(mid, di.ListOfDicts) or len(items) != n or any(list(it) != names for it in items):
                res.violate("lod:wrong-shape", f"{len(items)} items with keys {[list(it) for it in items[:2]]}, expected {n} x {names}; {ctx}")
            else:
                for k in names:
                    for i, it in enumerate(items):
                        v = it[k]
                        if (v is None) != na_mask[k][i] or (isinstance(v, float) and math.isnan(v)) or (isinstance(v, (np.datetime64,)) and np.isnat(v)) or (kinds[k] in ("str", "lstr") and v == ""):
                            res.violate(f"lod:missing-not-none:{kinds[k]}", f"item {i} key {k!r} = {v!r} but NA mask is {na_mask[k][i]}; {ctx}")
                            break
                res.count("intermediate-checked")
            back = mid.to_data_frame()
        elif target == "json":
            text = df.to_json()
            doc = json.loads(text)
            if not isinstance(doc, list) or len(doc) != n or any(list(o) != names for o in doc):
                res.violate("json:wrong-shape", f"{type(doc)} len {len(doc) if isinstance(doc, list) else None}; {ctx}")
            else:
                for k in names:
                    for i, o in enumerate(doc):
                        if (o[k] is None) != na_mask[k][i] or (kinds[k] in ("str", "lstr") and o[k] == ""):
                            res.violate(f"json:missing-not-null:{kinds[k]}", f"object {i} member {k!r} = {o[k]!r} but NA mask is {na_mask[k][i]}; {ctx}")
                            break
                res.count("intermediate-checked")
            if date_cols and case["json_map"]:
                back = di.DataFrame.from_json(text, dtypes=date_cols)
            else:
                back = di.DataFrame.from_json(text)
                iso_expected = bool(date_cols)
        elif target == "pandas":
            mid = df.to_pandas()
            if list(mid.columns) != names or mid.shape != (n, len(names)):
                res.violate("pandas:wrong-shape", f"shape {mid.shape} columns {list(mid.columns)}; {ctx}")
            else:
                for k in names:
                    m = mid[k].isna().tolist()
                    if m != na_mask[k]:
                        res.violate(f"pandas:missing-not-null:{kinds[k]}", f"column {k!r} isna {m} expected {na_mask[k]}; {ctx}")
                    if kinds[k] in ("str", "lstr") and any(v == "" for v in mid[k].tolist() if isinstance(v, str)):
                        res.violate("pandas:sentinel-crossed:str", f"column {k!r} holds '' in pandas; {ctx}")
                res.count("intermediate-checked")
            back = di.DataFrame.from_pandas(mid)
        else:
            mid = df.to_arrow()
            if mid.column_names != names or mid.num_rows != n:
                res.violate("arrow:wrong-shape", f"rows {mid.num_rows} columns {mid.column_names}; {ctx}")
            else:
                for k in names:
                    m = mid.column(k).is_null().to_pylist()
                    if m != na_mask[k]:
                        res.violate(f"arrow:missing-not-null:{kinds[k]}", f"column {k!r} is_null {m} expected {na_mask[k]}; {ctx}")
                res.count("intermediate-checked")
            back = di.DataFrame.from_arrow(mid)
    except Exception as e:
        feat = "+".join(sorted({k for _, k, v in spec if all(x is None for x in v)} and {"all-missing"} or {"plain"}))
        res.violate(f"{target}:raised:{exc_name(e)}:{feat}", f"raised {e!r}; {ctx}")
        return res.dict()
    post = canon.frame_cells(back)
    if list(post) != names:
        res.violate(f"{target}:names-differ", f"{list(post)} expected {names}; {ctx}")
        return res.dict()
    for k in names:
        exp = pre[k]
        if iso_expected and k in date_cols:
            vals = [v for name, _, vs in spec if name == k for v in vs]
            exp = [canon.NA if v is None else ("S", str(np.datetime64(v.isoformat(), "D" if kinds[k] == "date" else "us").item())) for v in vals]
        if not canon.cells_eq(post[k], exp, widen=True):
            d = canon.first_diff(post[k], exp, widen=True)
            what = "na-positions" if isinstance(d[0], int) and (d[1] == canon.NA or d[2] == canon.NA) else "values"
            res.violate(f"{target}:{what}-differ:{kinds[k]}", f"column {k!r}: {d}; {ctx}; back {canon.short(post, 500)}")
            return res.dict()
        all_missing = all(c == canon.NA for c in pre[k])
        k0 = canon.dtype_kind(dict.__getitem__(df, k))
        k1 = canon.dtype_kind(dict.__getitem__(back, k))
        if k0 in ("bool", "int", "float", "string") and not all_missing and not (iso_expected and k in date_cols):
            ok = k0 == k1 or (k0 == "int" and k1 == "float" and any(c == canon.NA for c in pre[k]))
            if not ok:
                feat = "with-na" if any(c == canon.NA for c in pre[k]) else "no-na"
                res.violate(f"{target}:dtype-differs:{k0}:{feat}", f"column {k!r}: {np.asarray(dict.__getitem__(df, k)).dtype} came back {np.asarray(dict.__getitem__(back, k)).dtype}; {ctx}")
            elif kinds[k] in ("int32", "float32") and not any(c == canon.NA for c in pre[k]) or kinds[k] == "float32":
                d0, d1 = np.asarray(dict.__getitem__(df, k)).dtype, np.asarray(dict.__getitem__(back, k)).dtype
                if d0 != d1 and d1 in (np.dtype("int64"), np.dtype("float64")):
                    # mechanism key of a recorded finding (known_findings.json): the width of a narrow numeric column does not survive any conversion
                    res.violate("dtype-widened:narrow-numeric-column", f"{target}: column {k!r}: {d0} came back {d1}; {ctx}")
                return res.dict()
    if canon.frame_cells(df) != pre:
        res.violate(f"{target}:mutated-input", ctx)
    res.count("roundtrips")
    return res.dict()
