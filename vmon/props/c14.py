# -*- coding: utf-8 -*-
"""
C14 - restricting or aliasing a read never changes what is read.

Oracle: read(path, columns/keys=S, dtypes/types=M) must equal, as a mapping
name -> values, (read(path) -> select S -> cast M); di.read_X(path, **kw) must
equal Class.read_X(path, **kw). The class methods are wrapped so that the
keyword arguments they actually receive from the alias are observed as well.
"""

import csv
import json
import os

import numpy as np

from vmon import canon, gen
from vmon.res import Result, exc_name

ID = "C14"
LEVEL = "exploration"
CASES = {"quick": 3000, "thorough": 300000}
RULE = ("seeded random files (CSV/JSON/Parquet/NPZ/GeoJSON written by the library and by independent writers: stdlib csv/json, "
        "pyarrow.parquet, np.savez) x every reader with column/key subsets in arbitrary order and dtype/type maps, and every alias "
        "function with random combinations of non-default keyword arguments; non-trivial = restriction is a proper subset or reordering, "
        "or a map/keyword is non-default; distinct = distinct (reader, subset order class, map, keyword set) signatures")
ASSUMPTIONS = [
    "column order of a restricted read is not asserted (CSV/Parquet give the requested order, JSON the file order): results are compared as name -> values mappings",
    "casts are unambiguous ones: int->float, int->str, digit strings->int, ISO strings->datetime64[D]; the reference cast is NumPy astype / the given Python type",
]
REACH = {"quick": {"mode:restrict": 1200, "mode:alias": 1000, "reader:df-csv": 120, "reader:df-json": 120, "reader:df-parquet": 120, "reader:lod-csv": 120,
                   "reader:lod-json": 120, "reader:geojson": 100, "subset:reordered": 400, "alias:read_parquet": 100, "alias:read_csv": 100,
                   "alias:read_json": 100, "alias:read_geojson": 100, "alias:read_npz": 100, "alias-nondefault-kw": 600}}

READERS = ["df-csv", "df-json", "df-parquet", "lod-csv", "lod-json", "geojson"]
ALIASES = ["read_csv", "read_json", "read_geojson", "read_npz", "read_parquet"]
NAMES = ["a", "b", "c", "d", "e"]

NESTED = [{"a": 10, "color": "red", "dim": {"w": 1, "b": 2}}, {"color": "blue", "c": [1, {"d": 2, "zz": 3}]}, {"b": "inner", "tags": {"x": 1}}, {}, {"e": None, "k": 1.5}]
MIXEDNUM = [1, 1.0, True, 0, 0.0, False, 2.5, 1]

def _table(rng, n, ncol, csv_only=False, json_only=None, ts_ok=False):
    """Plain-Python table: list of (name, kind, values) over int / digit-str / word-str / float / iso-date-str."""
    cols = []
    for name in rng.sample(NAMES, ncol):
        kind = rng.choice(["int", "float", "word", "digits", "iso"] + (["intz"] if csv_only else []) + (["nested", "nested"] if json_only else []) + (["mixednum"] if json_only == "lod" else []) + (["ts", "ts"] if ts_ok else []) + (["tsns"] if ts_ok and csv_only else []) + (["floatnan"] if ts_ok or json_only == "df" else []))
        if kind == "floatnan":
            # floats with NaN stored as a VALUE (not as the format's null): "NAN" in CSV text, NaN in a Parquet file written from NumPy arrays
            cols.append((name, kind, [None if rng.random() < 0.35 else rng.choice([0.5, 1.25, -3.5, 2.0]) for _ in range(n)]))
            continue
        if kind == "tsns":
            # timestamps written with true nanosecond digits (text, CSV only): such a column is parsed in nanoseconds, whatever its neighbours need
            cols.append((name, kind, [f"2020-01-0{rng.randint(1, 9)}T10:20:30.{rng.choice(['123456789', '000000001', '5', '250000'])}" for _ in range(n)]))
            continue
        if kind == "ts":
            # timestamps with a time of day (read back as datetime64 of some unit): a dtype map may ask for another unit of the same kind
            import datetime as _dt
            # (also instants outside the nanosecond range 1678-2261 and fractions of a second, where the unit the file is parsed in matters)
            bases = [_dt.datetime(2020, 1, 5, 10, 20, 30)] * 3 + ([_dt.datetime(9999, 1, 1, 23, 59, 59), _dt.datetime(1500, 6, 15, 12, 0, 0)] if rng.random() < 0.5 else [])
            cols.append((name, kind, [rng.choice(bases) + _dt.timedelta(days=rng.choice([0, 1, 300]), seconds=rng.choice([0, 59, 3601]), microseconds=rng.choice([0, 0, 0, 500000, 250000])) for _ in range(n)]))
            continue
        if kind == "nested":
            # JSON objects as values, whose inner keys coincide with column names or not, at several depths
            cols.append((name, kind, [json.loads(json.dumps(rng.choice(NESTED))) for _ in range(n)]))
            continue
        if kind == "mixednum":
            # equal-but-different JSON numbers / booleans under one key
            cols.append((name, kind, [rng.choice(MIXEDNUM) for _ in range(n)]))
            continue
        if kind == "int": vals = [rng.choice([1, 2, 3, 10, -5, 0, 7]) for _ in range(n)]
        elif kind == "float": vals = [rng.choice([0.5, 1.25, -3.5, 2.0, 10.75]) for _ in range(n)]
        elif kind == "word": vals = [rng.choice(["x", "yy", "abc", "q r", "ünï"]) for _ in range(n)]
        elif kind == "digits": vals = [rng.choice(["12", "7", "300", "45"]) for _ in range(n)]
        elif kind == "intz": vals = [rng.choice(["007", "010", "5", "0042"]) for _ in range(n)]       # numbers in non-canonical text (CSV only)
        else: vals = [rng.choice(["2020-01-05", "1999-12-31", "2024-02-29"]) for _ in range(n)]
        cols.append((name, kind, vals))
    return cols

def generate(rng, tier):
    mode = rng.choice(["restrict", "alias"])
    n = rng.randint(1, 6)
    reader0 = rng.choice(READERS)
    if mode == "restrict" and reader0 in ("df-csv", "lod-csv") and rng.random() < 0.05:
        n = 0         # a file that holds the header line only
    alias0 = rng.choice(ALIASES)
    json_only = None
    if rng.random() < 0.5:
        if mode == "restrict" and reader0 in ("df-json", "lod-json"): json_only = "df" if reader0 == "df-json" else "lod"
        if mode == "alias" and alias0 == "read_json": json_only = "lod"
    cols = _table(rng, n, rng.randint(2, 5), csv_only=(mode == "restrict" and reader0 == "df-csv"), json_only=json_only,
                  ts_ok=(mode == "restrict" and reader0 in ("df-csv", "df-parquet")))
    names = [c[0] for c in cols]
    case = {"mode": mode, "cols": cols, "writer": rng.choice(["library", "independent"]), "ragged": rng.getrandbits(16) if rng.random() < 0.4 else 0}
    if mode == "restrict":
        case["reader"] = reader0
        k = rng.randint(1, len(names))
        sub = rng.sample(names, k)
        case["subset"] = sub if rng.random() < 0.85 else []
        m = {}
        for name, kind, _ in cols:
            if rng.random() < 0.35 and (not case["subset"] or name in case["subset"]):
                if kind == "int": m[name] = rng.choice(["float", "str"])
                elif kind == "intz": m[name] = rng.choice(["str", "float"])
                elif kind == "digits" and case["reader"] in ("df-json", "lod-json", "lod-csv", "geojson"): m[name] = "int"
                elif kind == "iso" and case["reader"] in ("df-json", "geojson"): m[name] = "datetime64[D]"
                elif kind == "float" and case["reader"].startswith("lod"): m[name] = "str"
                elif kind == "float" and case["reader"] in ("df-json", "geojson", "df-csv", "df-parquet"): m[name] = "float"
                elif kind == "word" and case["reader"] in ("df-json", "geojson", "df-csv"): m[name] = "str"
                elif kind == "mixednum": m[name] = "str"
                elif kind == "floatnan": m[name] = rng.choice(["str", "object", "float"])
                elif kind == "ts": m[name] = rng.choice(["datetime64[D]", "datetime64[ms]", "datetime64[h]"])
        if case["ragged"] and case["reader"] in ("df-json", "geojson"):
            # a column that also holds missing values (a key absent from some records): only the casts that cannot be ambiguous --
            # a type the full read gives the column anyway (text as str, numbers as float), under which missing stays missing
            kinds = {name: kind for name, kind, _ in cols}
            m = {k: v for k, v in m.items() if (kinds[k], v) in (("word", "str"), ("float", "float"), ("int", "float"))}
        case["map"] = m
        if json_only and rng.random() < 0.4:
            case["hook"] = True       # json.load keyword (object_hook) given to the full and to the restricted read alike
        if case["reader"] in ("df-csv", "lod-csv") and rng.random() < 0.3:
            case["sep"] = rng.choice([";", "\t", "|"])
        if n == 0:
            case["map"] = {}
        if case["reader"] == "geojson" and rng.random() < 0.12:
            case["subset"] = ["geometry"]          # just the shapes: a restriction like any other, not "no restriction"
            case["map"] = {}
        if case["reader"] in ("df-csv", "lod-csv") and rng.random() < 0.25 and n:
            # header-less file: columns are known by generated names a, b, c, ...
            case["noheader"] = True
            gnames = "abcdefghij"[:len(names)]
            k = rng.randint(1, len(names))
            case["subset"] = rng.sample(list(gnames), k)
            case["map"] = {}
        if case["reader"] == "df-parquet" and rng.random() < 0.3:
            case["writer"] = "independent"
            case["pandas_writer"] = rng.choice(["reversed", "filtered", "named-index"])
        if case["reader"] == "df-csv" and not case.get("noheader") and rng.random() < 0.2:
            case["bom"] = True        # a file that starts with a UTF-8 byte order mark (spreadsheet "CSV UTF-8" export)
        if case["reader"] == "df-csv" and rng.random() < 0.05 and n:
            # a wide header-less file: generated names go beyond one letter; the restriction is by position in the full read's names
            nc = rng.choice([28, 30, 55])
            case["cols"] = [(f"c{j:02d}", "int", [j * 1000 + i for i in range(n)]) for j in range(nc)]
            case["noheader"] = True
            case["wide_idx"] = rng.sample(range(nc), rng.randint(1, 4)) + [rng.randrange(26, nc)]
            case["subset"] = ["?"]
            case["map"] = {}
            case["writer"] = "independent"
            case.pop("bom", None)
    else:
        alias = alias0
        case["alias"] = alias
        kw = {}
        def maybe(p=0.5): return rng.random() < p
        if alias == "read_csv":
            if maybe(): kw["encoding"] = rng.choice(["latin-1", "utf-16", "utf-8-sig"])
            if maybe(): kw["sep"] = rng.choice([";", "\t", "|"])
            if maybe(0.3): kw["header"] = False
            if maybe() and not kw.get("header") is False: kw["columns"] = rng.sample(names, rng.randint(1, len(names)))
            if maybe(0.4) and not kw.get("header") is False:
                ints = [c[0] for c in cols if c[1] == "int" and (not kw.get("columns") or c[0] in kw["columns"])]
                if ints: kw["dtypes"] = {ints[0]: "float"}
        elif alias == "read_parquet":
            if maybe(0.7): kw["columns"] = rng.sample(names, rng.randint(1, len(names)))
            if maybe(0.6):
                ints = [c[0] for c in cols if c[1] == "int" and (not kw.get("columns") or c[0] in kw["columns"])]
                if ints: kw["dtypes"] = {ints[0]: "float"}
        elif alias == "read_json":
            if maybe(): kw["encoding"] = rng.choice(["latin-1", "utf-16"])
            if maybe(): kw["keys"] = rng.sample(names, rng.randint(1, len(names)))
            if maybe():
                ints = [c[0] for c in cols if c[1] == "int" and (not kw.get("keys") or c[0] in kw["keys"])]
                if ints: kw["types"] = {ints[0]: "float"}
            if maybe(0.4): kw["parse_float"] = "str"
            if maybe(0.3): kw["parse_int"] = "float"
        elif alias == "read_geojson":
            if maybe(): kw["encoding"] = rng.choice(["latin-1", "utf-16"])
            if maybe(): kw["columns"] = rng.sample(names, rng.randint(1, len(names)))
            if maybe():
                ints = [c[0] for c in cols if c[1] == "int" and (not kw.get("columns") or c[0] in kw["columns"])]
                if ints: kw["dtypes"] = {ints[0]: "float"}
            if maybe(0.4): kw["parse_float"] = "str"
        elif alias == "read_npz":
            if maybe(0.6): kw["allow_pickle"] = rng.choice([True, False])
            case["npz_object"] = rng.random() < 0.4
        if case["ragged"]:
            kw.pop("dtypes", None)
        case["kw"] = kw
    return case

TYPES = {"float": float, "str": str, "int": int, "object": object}

def _np_values(kind, vals):
    return np.array(vals) if kind in ("int", "float") else np.array(vals, dtype=object)

def _write(case, path, fmt, enc="utf-8", sep=",", header=True):
    import dataiter as di
    cols = case["cols"]
    names = [c[0] for c in cols]
    n = len(cols[0][2])
    rows = [{c[0]: c[2][i] for c in cols} for i in range(n)]
    if fmt in ("json", "geojson") and case.get("ragged"):
        # ragged records: some keys are absent from some records (never from all); the first record may lack keys that appear later
        import random as _r
        rr = _r.Random(case["ragged"])
        for i, r in enumerate(rows):
            for k in list(r):
                if rr.random() < 0.3 and sum(1 for q in rows if k in q) > 1:
                    del r[k]
    lib = case["writer"] == "library" and not any(c[1] in ("intz", "tsns", "floatnan") for c in cols)
    fnan = {c[0] for c in cols if c[1] == "floatnan"}
    if fmt == "csv":
        if lib and enc == "utf-8":
            di.DataFrame(**{c[0]: list(c[2]) for c in cols}).write_csv(path, sep=sep, header=header)
        else:
            with open(path, "w", encoding=enc, newline="") as f:
                w = csv.writer(f, delimiter=sep, quoting=csv.QUOTE_MINIMAL, lineterminator="\n")
                if header: w.writerow(names)
                for r in rows: w.writerow(["NAN" if k in fnan and r[k] is None else r[k] for k in names])
    elif fmt == "json":
        if lib and enc == "utf-8":
            di.ListOfDicts(rows).write_json(path)
        else:
            with open(path, "w", encoding=enc) as f:
                # (a float column's missing values as the NaN literal Python's json writes, not as null)
                json.dump([{k: (float("nan") if k in fnan and v is None else v) for k, v in r.items()} for r in rows], f, ensure_ascii=False)
    elif fmt == "parquet":
        if lib:
            di.DataFrame(**{c[0]: list(c[2]) for c in cols}).write_parquet(path)
        elif case.get("pandas_writer"):
            # a file written by pandas from a frame whose index is not the default one (filtered / sorted / set_index): it carries an index column and pandas metadata
            import pandas as pd
            pdf = pd.DataFrame({c[0]: list(c[2]) for c in cols})
            how = case["pandas_writer"]
            if how == "reversed": pdf = pdf.iloc[::-1]
            elif how == "filtered": pdf = pdf.iloc[[i for i in range(len(pdf)) if i % 2 == 0] or [0]]
            else: pdf.index = pd.Index([f"r{i}" for i in range(len(pdf))], name="rowname")
            pdf.to_parquet(path)
        else:
            import pyarrow as pa, pyarrow.parquet as pq
            pq.write_table(pa.table({c[0]: (pa.array(np.array([np.nan if v is None else v for v in c[2]], dtype=float)) if c[0] in fnan else list(c[2])) for c in cols}), path)
    elif fmt == "npz":
        arrs = {c[0]: (np.array(c[2], dtype=object) if case.get("npz_object") and c[1] not in ("int", "float") else np.array(c[2])) for c in cols}
        if lib and not case.get("npz_object"):
            di.DataFrame(**arrs).write_npz(path)
        else:
            np.savez(path, **arrs)
    elif fmt == "geojson":
        feats = [{"type": "Feature", "properties": r, "geometry": {"type": "Point", "coordinates": [i, i + 0.5]}} for i, r in enumerate(rows)]
        with open(path, "w", encoding=enc) as f:
            json.dump({"type": "FeatureCollection", "name": "t", "features": feats}, f, ensure_ascii=False)

def _as_mapping(obj):
    """name -> canonical cells for a DataFrame/GeoJSON, or list of item dicts for a ListOfDicts."""
    import dataiter as di
    if isinstance(obj, di.DataFrame):
        m = {k: (canon.col_cells(v), str(np.asarray(v).dtype)) for k, v in dict.items(obj)}
        if isinstance(obj, di.GeoJSON):
            m["__metadata__"] = canon.canon_obj(dict(obj.metadata))
        return m
    if isinstance(obj, di.ListOfDicts):
        return [{k: canon.canon_obj(v) for k, v in dict.items(x)} for x in list.__iter__(obj)]
    return ("other", repr(obj))

class Tagged(dict):
    """What a user's object_hook may return."""
    def __init__(self, obj=()):
        super().__init__(obj)

def _cv(v):
    """Canonical value that also records which mapping class a nested JSON object came back as."""
    if isinstance(v, dict):
        return ("D", type(v).__name__ if isinstance(v, Tagged) else "dict", tuple((k, _cv(x)) for k, x in v.items()))
    if isinstance(v, (list, tuple)):
        return ("L", tuple(_cv(x) for x in v))
    return canon.canon_obj(v)

def _cells(column):
    a = np.asarray(column)
    if a.dtype == object:
        return [_cv(x) for x in a.tolist()]
    return canon.col_cells(column)

def execute(case):
    import dataiter as di
    scratch = os.environ.get("VERIF_SCRATCH") or "/tmp"
    d = os.path.join(scratch, f"c14_{os.getpid()}")
    os.makedirs(d, exist_ok=True)
    for f in os.listdir(d):
        os.remove(os.path.join(d, f))
    cols = case["cols"]
    names = [c[0] for c in cols]
    res = Result()
    res.cls(f"mode:{case['mode']}")
    ctx = f"{ {k: v for k, v in case.items() if k != 'cols'} } table {canon.short(cols, 600)}"
    if case["mode"] == "restrict":
        reader, sub, m = case["reader"], case["subset"], case["map"]
        sep = case.get("sep", ",")
        reordered = bool(sub) and sub != [n for n in names if n in sub]
        res.sig = f"{reader}|sub{len(sub)}/{len(names)}|ro{int(reordered)}|{sorted(m.items())}|{case['writer']}"
        res.nontrivial = bool(sub and (len(sub) < len(names) or reordered)) or bool(m)
        res.cls(f"reader:{reader}")
        if reordered: res.cls("subset:reordered")
        if m: res.cls("map:nonempty")
        jkw = {"object_hook": Tagged} if case.get("hook") else {}
        if jkw: res.cls("restrict:json-kwargs")
        if any(c[1] == "nested" for c in cols): res.cls("restrict:nested-json-values")
        if any(c[1] == "mixednum" for c in cols): res.cls("restrict:equal-but-different-values")
        try:
            hdr = not case.get("noheader")
            if not hdr:
                names = list("abcdefghij"[:len(names)])
                res.cls("restrict:header-less")
            if reader == "df-csv":
                path = os.path.join(d, "f.csv"); _write(case, path, "csv", sep=sep, header=hdr, enc="utf-8-sig" if case.get("bom") else "utf-8")
                if case.get("bom"): res.cls("restrict:csv-with-bom")
                full = di.DataFrame.read_csv(path, sep=sep, header=hdr)
                if case.get("wide_idx"):
                    names = list(dict.keys(full))
                    sub = []
                    for j in case["wide_idx"]:
                        if names[j] not in sub: sub.append(names[j])
                    res.cls("restrict:wide-header-less")
                got = di.DataFrame.read_csv(path, sep=sep, header=hdr, columns=list(sub), dtypes={k: TYPES.get(v, v) for k, v in m.items()})
            elif reader == "df-json":
                path = os.path.join(d, "f.json"); _write(case, path, "json")
                full = di.DataFrame.read_json(path, **jkw)
                got = di.DataFrame.read_json(path, columns=list(sub), dtypes={k: TYPES.get(v, v) for k, v in m.items()}, **jkw)
            elif reader == "df-parquet":
                path = os.path.join(d, "f.parquet"); _write(case, path, "parquet")
                full = di.DataFrame.read_parquet(path)
                got = di.DataFrame.read_parquet(path, columns=list(sub), dtypes={k: TYPES.get(v, v) for k, v in m.items()})
            elif reader == "geojson":
                path = os.path.join(d, "f.geojson"); _write(case, path, "geojson")
                full = di.GeoJSON.read(path)
                got = di.GeoJSON.read(path, columns=list(sub), dtypes={k: TYPES.get(v, v) for k, v in m.items()})
            elif reader == "lod-csv":
                path = os.path.join(d, "f.csv"); _write(case, path, "csv", sep=sep, header=hdr)
                full = di.ListOfDicts.read_csv(path, sep=sep, header=hdr)
                got = di.ListOfDicts.read_csv(path, sep=sep, header=hdr, keys=list(sub), types={k: TYPES[v] for k, v in m.items()})
            else:
                path = os.path.join(d, "f.json"); _write(case, path, "json")
                full = di.ListOfDicts.read_json(path, **jkw)
                got = di.ListOfDicts.read_json(path, keys=list(sub), types={k: TYPES[v] for k, v in m.items()}, **jkw)
        except Exception as e:
            res.violate(f"restrict:{reader}:raised:{exc_name(e)}", f"raised {e!r}; {ctx}")
            return res.dict()
        keep = sub or (names if reader.startswith("lod") else [k for k in dict.keys(full) if k != "geometry"])
        if reader.startswith("lod"):
            exp = []
            for it in list.__iter__(full):
                e = {k: v for k, v in dict.items(it) if k in keep}
                for k, t in m.items():
                    if k in e: e[k] = TYPES[t](e[k])
                exp.append({k: _cv(v) for k, v in e.items()})
            gotm = [{k: _cv(v) for k, v in dict.items(x)} for x in list.__iter__(got)]
            if gotm != exp:
                kind = "values-under-wrong-key" if [sorted(map(repr, g.values())) for g in gotm] == [sorted(map(repr, e.values())) for e in exp] else "differs"
                res.violate(f"restrict:{reader}:{kind}", f"restricted read {canon.short(gotm, 500)} expected {canon.short(exp, 500)}; {ctx}")
        else:
            exp = {}
            extra = ["geometry"] if reader == "geojson" else []
            for k in list(keep) + extra:
                colv = dict.__getitem__(full, k)
                if k in m:
                    t = TYPES.get(m[k], m[k])
                    base = _cells(colv)
                    if any(c == canon.NA for c in base) and t in (str, object):
                        # casting leaves a missing value missing (in the new type's own representation)
                        keepi = [i for i, c in enumerate(base) if c != canon.NA]
                        cast = _cells(np.asarray(colv)[keepi].astype(di.dtypes.string if t is str else t))
                        it = iter(cast)
                        exp[k] = [canon.NA if c == canon.NA else next(it) for c in base]
                        continue
                    colv = np.asarray(colv).astype(di.dtypes.string if t is str else t)
                exp[k] = _cells(colv)
            gotm = {k: _cells(v) for k, v in dict.items(got)}
            if set(gotm) != set(exp):
                res.violate(f"restrict:{reader}:wrong-column-set", f"columns {list(gotm)} expected {list(exp)}; {ctx}")
            else:
                for k in exp:
                    if not canon.cells_eq(gotm[k], exp[k]):
                        res.violate(f"restrict:{reader}:values-differ", f"column {k!r}: {canon.first_diff(gotm[k], exp[k])}; got {canon.short(gotm, 400)} expected {canon.short(exp, 400)}; {ctx}")
                        break
                    if k in m:
                        want = np.dtype(di.dtypes.string if m[k] == "str" else TYPES.get(m[k], m[k]))
                        have = np.asarray(dict.__getitem__(got, k)).dtype
                        if canon.dtype_kind(np.empty(0, want)) != canon.dtype_kind(dict.__getitem__(got, k)):
                            res.violate(f"restrict:{reader}:dtype-map-ignored", f"column {k!r} requested {m[k]} got {have}; {ctx}")
                            break
        res.count("restricted-reads")
        return res.dict()
    # ---------------------------------------------------------------- alias mode
    alias, kw = case["alias"], dict(case["kw"])
    res.sig = f"alias|{alias}|{sorted(kw)}|{case['writer']}"
    res.nontrivial = bool(kw)
    res.cls(f"alias:{alias}")
    if kw: res.cls("alias-nondefault-kw")
    enc = kw.get("encoding", "utf-8")
    cls, meth, fmt = {"read_csv": (di.DataFrame, "read_csv", "csv"), "read_parquet": (di.DataFrame, "read_parquet", "parquet"),
                      "read_npz": (di.DataFrame, "read_npz", "npz"), "read_json": (di.ListOfDicts, "read_json", "json"),
                      "read_geojson": (di.GeoJSON, "read", "geojson")}[alias]
    path = os.path.join(d, "f." + fmt)
    real_kw = dict(kw)
    for k in ("dtypes", "types"):
        if k in real_kw: real_kw[k] = {a: TYPES.get(b, b) for a, b in real_kw[k].items()}
    for k in ("parse_float", "parse_int"):
        if k in real_kw: real_kw[k] = TYPES[real_kw[k]]
    try:
        _write(case, path, fmt, enc=enc if fmt != "parquet" else "utf-8", sep=kw.get("sep", ","), header=kw.get("header", True))
    except UnicodeEncodeError:
        res.skip("text not encodable")
        return res.dict()
    received = []
    orig = cls.__dict__.get(meth)
    spying = isinstance(orig, classmethod)
    if spying:
        func = orig.__func__
        def spy(c, *a, **k):
            received.append((a, dict(k)))
            return func(c, *a, **k)
        setattr(cls, meth, classmethod(spy))
    try:
        try:
            a_out = getattr(di, alias)(path, **real_kw)
            a_err = None
        except Exception as e:
            a_out, a_err = None, e
    finally:
        if spying:
            setattr(cls, meth, orig)
    try:
        c_out = getattr(cls, meth)(path, **real_kw)
        c_err = None
    except Exception as e:
        c_out, c_err = None, e
    if (a_err is None) != (c_err is None):
        res.violate(f"alias:{alias}:one-raises", f"alias raised {a_err!r}, class method raised {c_err!r}; {ctx}")
        return res.dict()
    if a_err is None:
        if type(a_out) is not type(c_out) or _as_mapping(a_out) != _as_mapping(c_out):
            res.violate(f"alias:{alias}:result-differs", f"di.{alias}(path, **{kw}) = {canon.short(_as_mapping(a_out), 500)} but {cls.__name__}.{meth} gives {canon.short(_as_mapping(c_out), 500)}; {ctx}")
    if received:
        # observability only (an alias is free to be implemented differently): what the class method actually received
        got_kw = received[0][1]
        if any(k not in got_kw or got_kw[k] != v for k, v in real_kw.items()):
            res.count("alias-kwargs-differ-observed")
        res.count("alias-kwargs-observed")
    res.count("alias-calls")
    return res.dict()
