# -*- coding: utf-8 -*-
"""
C03 - DataFrame.sort is a stable, key-ordered permutation of whole rows.

Oracle (a checker, not a constructor): (1) output row ids are a permutation of
the input row ids and every output row equals the input row it names on every
column; (2) adjacent output rows are in order under the lexicographic
combination of the per-key comparators, where a missing key cell is placed last
for an ascending key and at either end (one end per call) for a descending key;
(3) rows equal on all keys keep increasing row id (stability).
"""

import itertools

from vmon import canon, gen
from vmon.res import Result, exc_name

ID = "C03"
LEVEL = "exploration"
CASES = {"quick": 20000, "thorough": 1600000}
RULE = ("seeded random frames (row-id + 1-4 columns) sorted by 1-3 key columns over bool/int(incl. INT64 extremes)/"
        "float(+-inf,+-0.0,>=2**53)/short,>=50-char,boundary-straddling and fixed-width strings (incl. code points above "
        "U+FFFF)/date/datetime/object bool,str with None, all direction vectors, heavy ties, every NA pattern, 0..120 rows; "
        "non-trivial = nrow >= 2; distinct = distinct (key kinds, directions, nrow class, NA/tie presence) signatures")
ASSUMPTIONS = [
    "order: numbers numerically, strings by code point, dates chronologically, False < True; NA last when ascending, either end when descending",
    "object key columns hold mutually comparable values only; strings containing U+0000 are not generated",
    "strings starting with U+FFFF (the library's in-band sentinel for missing strings) form a tagged class",
]
REACH = {"quick": {"nrow:0": 50, "key:lstr": 100, "key:ustr": 100, "key:str": 300, "multi-key-mixed-dir": 200, "key-all-missing": 50, "desc-nonnumeric": 300, "tag:big": 5, "after-inplace-edit": 500, "grouped-receiver": 300, "key:oint": 100}}

KEY_KINDS = ["bool", "int", "float", "str", "str", "lstr", "ustr", "date", "datetime", "obool", "ostr", "timedelta", "oint", "uint64", "int_be", "float_be", "datetime_be", "date_be", "datetime_ns", "datetime_s", "olist", "tstr", "tstr"]

def _big_case(rng):
    """Size-dependent paths: > 10000 rows, the longest / distinguishing strings only in the tail."""
    nrow = rng.choice([10050, 12000, 16500])
    head = [rng.choice(["a", "ab", "b", "abc", "zz"]) for _ in range(nrow - 60)]
    style = rng.choice(["short-tail", "long-tail"])
    if style == "short-tail":
        tail = [rng.choice(["abcdefgh1", "abcdefgh0", "abcdefgz", "abcdefgh", "abcd"]) for _ in range(60)]
    else:
        tail = [("y" * 55) + rng.choice(["c", "a", "b", "ab", ""]) for _ in range(60)]
    vals = head + tail
    if rng.random() < 0.3:
        vals[rng.randrange(nrow)] = None
    spec = [("_rid_", "int", list(range(nrow))), ("k0", "str", vals), ("k1", "int", [rng.choice([1, 2, 3]) for _ in range(nrow)])]
    keys = [("k0", rng.choice([1, -1]))] + ([("k1", rng.choice([1, -1]))] if rng.random() < 0.5 else [])
    return {"spec": spec, "keys": keys, "tags": ["big"]}

def generate(rng, tier):
    tags = set()
    if rng.random() < 0.002:
        return _big_case(rng)
    nrow = gen.gen_nrow(rng, big=(tier == "thorough"))
    r_ = rng.random()
    if r_ < 0.012:
        nrow = rng.choice([255, 256, 257])        # exact boundaries of narrow integer types (ranks, codes, indices stored in 8 / 16 bits)
        tags.add("boundary-size")
    elif r_ < 0.0128:
        nrow = rng.choice([65535, 65536, 65537])
        tags.add("boundary-size")
    nkey = rng.choice([1, 1, 2, 2, 3])
    spec = [("_rid_", "int", list(range(nrow)))]
    keys = []
    for j in range(nkey):
        kind = rng.choice(KEY_KINDS)
        na = rng.choice(["none", "none", "some", "some", "first", "last", "all"])
        dup = rng.choice(["few", "few", "few", "distinct", "equal"])
        vals = gen.gen_values(rng, kind, nrow, na, dup, hostile=0.4, tags=tags)
        if kind in ("str", "lstr") and rng.random() < 0.1:
            vals = [rng.choice(gen.STR_NEAR50 + gen.STR_SHORT[:3]) if v is not None else None for v in vals]
        spec.append((f"k{j}", kind, vals))
        keys.append((f"k{j}", rng.choice([1, -1])))
    for j in range(rng.randint(0, 2)):
        kind = rng.choice(gen.KINDS_KEY)
        spec.append((f"p{j}", kind, gen.gen_values(rng, kind, nrow, rng.choice(gen.NA_PATTERNS), "few", 0.2, tags)))
    if rng.random() < 0.3:
        order = spec[1:]
        rng.shuffle(order)
        spec = [spec[0]] + order
    rng.shuffle(keys)
    case = {"spec": spec, "keys": keys, "tags": sorted(tags)}
    if rng.random() < 0.15:
        gc = [s_[0] for s_ in spec if s_[1] in ("int", "str", "bool", "float", "date") and s_[0] != "_rid_"]
        if gc: case["grouped"] = rng.choice(gc)
    if nrow and rng.random() < 0.25:
        col = keys[0][0]
        kind = [s_[1] for s_ in spec if s_[0] == col][0]
        if kind in ("str", "int", "float", "date", "bool"):
            case["edit"] = (col, rng.randrange(nrow), rng.choice(gen.pool(rng, kind, 0.0)))
    return case

def _cmp_cells(a, b, dir, na_last):
    an, bn = a == canon.NA, b == canon.NA
    if an and bn: return 0
    if an: return 1 if na_last else -1
    if bn: return -1 if na_last else 1
    x, y = a[1], b[1]
    c = (x > y) - (x < y)
    return c if dir > 0 else -c

def execute(case):
    r = _execute(case, None)
    ed = case.get("edit")
    if r["violations"] or not ed:
        return r
    # history clause: sort once, assign one key cell in place on the same frame object, sort again
    r2 = _execute(case, ed)
    r["classes"] = r["classes"] + ["after-inplace-edit"]
    r["violations"] = [{"key": "after-inplace-edit:" + x["key"], "msg": "after sorting once and assigning one key cell in place: " + x["msg"]} for x in r2["violations"]]
    return r

def _execute(case, edit):
    import dataiter as di
    import numpy as np
    spec, keys = case["spec"], case["keys"]
    nrow = len(spec[0][2])
    kind_of = {s[0]: s[1] for s in spec}
    kkinds = [kind_of[k] for k, _ in keys]
    dirs = [d for _, d in keys]
    has_na = any(v is None for k, _ in keys for v in [x for s in spec if s[0] == k for x in s[2]])
    res = Result(sig=f"{','.join(f'{k}{d:+d}' for k, d in zip(kkinds, dirs))}|n{gen.nrow_class(nrow)}|na{int(has_na)}", nontrivial=nrow >= 2)
    res.cls(f"nrow:{gen.nrow_class(nrow)}", *[f"key:{k}" for k in kkinds])
    for t in case["tags"]:
        res.cls("tag:" + t)
    if len(keys) > 1 and len(set(dirs)) > 1:
        res.cls("multi-key-mixed-dir")
    if any(d < 0 and k not in ("int", "float") for k, d in zip(kkinds, dirs)):
        res.cls("desc-nonnumeric")
    df = gen.build_frame(spec)
    if edit is not None:
        col, pos, newv = edit
        try:
            r0 = df.sort(**dict(keys)); df.unique(col); df.split(col)
            if pos % 2 == 0 and nrow:
                # the judged receiver is itself the RESULT of a sort by the same keys, edited in place afterwards
                np.asarray(dict.__getitem__(r0, "_rid_"))[:] = np.arange(nrow)
                df = r0
                res.cls("resort-of-edited-sort-result")
        except Exception:
            pass
        arr = np.asarray(dict.__getitem__(df, col))
        arr[pos % len(arr)] = gen.np_column(kind_of[col], [newv])[0]
    if case.get("grouped"):
        # the frame was grouped (and aggregated) earlier: group_by marks the receiver, sort must not care
        try:
            g = case["grouped"]
            df.group_by(g)
            df.aggregate(n=di.count())
        except Exception:
            pass
        res.cls("grouped-receiver")
    pre = canon.frame_cells(df)
    names = list(pre)
    for k, _ in keys:
        if nrow and all(c == canon.NA for c in pre[k]):
            res.cls("key-all-missing")
    try:
        out = df.sort(**dict(keys))
    except Exception as e:
        feat = []
        if nrow == 0: feat.append("empty")
        if any(nrow and all(c == canon.NA for c in pre[k]) for k, _ in keys): feat.append("all-missing-key")
        if "int_ext" in case["tags"]: feat.append("int-ext")
        res.violate(f"sort:raised:{exc_name(e)}:{'+'.join(feat) or 'plain'}", f"sort({keys}) raised {e!r} on {canon.short(spec, 1200)}")
        return res.dict()
    post = canon.frame_cells(out)
    if list(post) != names:
        res.violate("sort:columns-changed", f"{list(post)} != {names}")
        return res.dict()
    if canon.frame_cells(df) != pre:
        kinds = sorted({kind_of[n] for n in names if canon.col_cells(dict.__getitem__(df, n)) != pre[n]})
        res.violate(f"sort:mutated-input:{'+'.join(kinds)}", f"sort({keys}) changed its receiver; spec {canon.short(spec, 800)}; now {canon.short(canon.frame_cells(df), 600)}")
    rids = [c[1] for c in post["_rid_"]]
    if sorted(rids) != list(range(nrow)) or any(len(post[n]) != nrow for n in names):
        res.violate("sort:not-a-permutation", f"sort({keys}) gave row ids {rids} for {nrow} rows; spec {canon.short(spec, 800)}")
        return res.dict()
    for n in names:
        exp = [pre[n][r] for r in rids]
        if not canon.cells_eq(post[n], exp):
            res.violate("sort:row-torn", f"column {n} does not follow the row ids: {canon.first_diff(post[n], exp)}; spec {canon.short(spec, 800)}")
            return res.dict()
    # order + stability under at least one NA placement for descending keys
    desc = [j for j, (_, d) in enumerate(keys) if d < 0]
    rows = [[post[k][i] for k, _ in keys] for i in range(nrow)]
    ok_any = False
    why = None
    for placement in itertools.product([True, False], repeat=len(desc)):
        na_last = [True] * len(keys)
        for j, p in zip(desc, placement):
            na_last[j] = p
        ok = True
        for i in range(nrow - 1):
            c = 0
            for j, (_, d) in enumerate(keys):
                c = _cmp_cells(rows[i][j], rows[i + 1][j], d, na_last[j])
                if c: break
            if c > 0 or (c == 0 and rids[i] > rids[i + 1]):
                ok = False
                why = (i, rows[i], rows[i + 1], rids[i], rids[i + 1], "order" if c > 0 else "stability")
                break
        if ok:
            ok_any = True
            break
    if not ok_any:
        feats = []
        if "str_astral" in case["tags"] and any(k in ("str", "ustr") for k in kkinds): feats.append("astral-string")
        if "str_ffff" in case["tags"] and any(k in ("str", "ustr") for k in kkinds): feats.append("ffff-string")
        if "int_ext" in case["tags"]: feats.append("int-ext")
        res.violate(f"sort:wrong-{why[5]}:{'+'.join(feats) or 'plain'}",
                    f"sort({keys}) output rows {why[0]},{why[0]+1} = {why[1]} / {why[2]} (rids {why[3]},{why[4]}) violate {why[5]}; "
                    f"key cells {canon.short(rows, 600)}; spec {canon.short(spec, 1200)}")
    res.count("rows-checked", nrow)
    res.observed = {"nrow": nrow, "keys": keys}
    return res.dict()
