# -*- coding: utf-8 -*-
"""
C10 - vector construction and the missing-value model are coherent.

Oracle: computed from the *input sequence* itself: expected NA positions =
positions of None / NaN / NaT (plus "" when the result is a string vector),
expected NA representative by inferred kind, tolist() against the original
values, the rebuild law, algebraic laws of equal(), na_dtype/na_value
coherence, drop_na / replace_na locality.
"""

import datetime
import math

import numpy as np

from vmon import canon, gen
from vmon.res import Result, exc_name

ID = "C10"
LEVEL = "exploration"
CASES = {"quick": 20000, "thorough": 600000}
RULE = ("seeded random sequences (list/tuple/generator/ndarray, length 0-12) over bool,int,float,str,date,datetime,timedelta,bytes,opaque "
        "objects with None / float nan / np.float64 nan / NaT in any position, homogeneous or mixed, Python or NumPy scalars, with and "
        "without an explicit dtype in {float,int,int64,str,bool,S,object,datetime64[D],datetime64[us],datetime64[ns],timedelta64[us]}; non-trivial = length >= 2 and at least one "
        "missing or one non-missing element; distinct = distinct (element kind, scalar flavour, container, dtype argument, NA pattern, length class)")
ASSUMPTIONS = [
    "for mixed-kind inputs NumPy's coercion decides the values: only missing positions and totality are judged there",
    "sequences whose elements are themselves sequences are excluded (NumPy makes them 2-d)",
    "cross-dtype transitivity of equal() uses |values| < 2**53",
]
REACH = {"quick": {"kind:bool": 500, "kind:int": 500, "kind:str": 500, "kind:date": 300, "kind:timedelta": 200, "kind:bytes": 200, "kind:object": 200,
                   "kind:mixed": 500, "flavour:numpy": 1500, "na:all": 500, "na:first": 500, "len:0": 300, "dtype-arg": 3000}}

class Opaque:
    def __init__(self, n): self.n = n
    def __repr__(self): return f"Opaque({self.n})"
    def __eq__(self, other): return isinstance(other, Opaque) and other.n == self.n
    def __hash__(self): return hash(self.n)

KINDS = ["bool", "int", "float", "str", "date", "datetime", "timedelta", "bytes", "object", "mixed", "datetime_ns", "complex"]
NA_TOKENS = ["None", "nan", "npnan", "nat"]

def generate(rng, tier):
    kind = rng.choice(KINDS)
    n = rng.choice([0, 1, 2, 3, rng.randint(3, 12), rng.randint(3, 12)])
    flavour = rng.choice(["python", "python", "numpy", "both"]) if kind in ("bool", "int", "float", "str", "date", "datetime", "timedelta") else "python"
    container = rng.choice(["list", "list", "tuple", "generator", "ndarray_object"])
    na_pat = rng.choice(["none", "none", "some", "first", "last", "all"])
    if kind == "mixed":
        sub = rng.sample(["bool", "int", "float", "str", "date", "object", "datetime", "date"], 2)
        vals = [rng.choice(gen.pool(rng, "obj" if k == "object" else k, 0.1)) for k in (rng.choice(sub) for _ in range(n))]
        vals = [v if not isinstance(v, (list, tuple, dict)) else "obj" for v in vals]
    elif kind == "object":
        vals = [rng.choice([Opaque(1), Opaque(2), {"k": 1}, {"k": 2}, frozenset([1])]) for _ in range(n)]
    elif kind == "complex":
        # complex numbers are "arbitrary objects" as far as missing values go: there is no complex NA, None stays None
        vals = [rng.choice([1 + 2j, 0j, -1.5j, 2 + 0j, 1e10 + 1j]) for _ in range(n)]
    elif kind == "datetime_ns":
        # nanosecond instants (NumPy scalars) with digits below the microsecond; dataiter keeps the unit it is given
        flavour = "numpy"
        vals = [rng.choice(gen.DATETIMES) for _ in range(n)]
    else:
        p = gen.pool(rng, kind, 0.3)
        if kind == "str" and rng.random() < 0.3:
            p = gen.pool(rng, "lstr", 0.3)      # strings beyond the in-place (small string) representation
        if kind == "float":
            p = [v for v in p if not (isinstance(v, float) and math.isinf(v))] + [math.inf]
        vals = [rng.choice(p) for _ in range(n)]
    # The statement maps None and NaN to missing; NaT is the datetime flavour of NaN and is only used among dates/datetimes.
    na_token = rng.choice(["None", "None", "nan", "npnan"])
    if kind in ("date", "datetime", "datetime_ns"):
        na_token = rng.choice(["None", "nat", "nan", "npnan"])
    marks = [False] * n
    if n:
        if na_pat == "all": marks = [True] * n
        elif na_pat == "first": marks[0] = True
        elif na_pat == "last": marks[-1] = True
        elif na_pat == "some": marks = [rng.random() < 0.35 for _ in range(n)]
    dtype = None
    if container == "ndarray_object":
        # a NumPy array is documented to be taken as is (fast path, no conversion of special values):
        # only None can mark a missing element there, and no dtype argument is combined with it
        na_token = "None"
    if rng.random() < 0.3 and container != "ndarray_object":
        dtype = {"bool": rng.choice(["object", "bool"]), "int": rng.choice(["int", "float", "object", "int64"]), "float": rng.choice(["float", "object"]),
                 "str": rng.choice(["str", "object"]), "date": rng.choice(["datetime64[D]", "object"]), "datetime": rng.choice(["datetime64[us]", "object"]),
                 "timedelta": rng.choice(["object", "timedelta64[us]"]), "bytes": rng.choice(["object", "S"]), "object": "object", "mixed": "object", "datetime_ns": "datetime64[ns]", "complex": rng.choice(["object", "complex"])}[kind]
    return {"kind": kind, "values": vals, "marks": marks, "na_token": na_token, "flavour": flavour, "container": container, "dtype": dtype}

def _na(token):
    return {"None": None, "nan": float("nan"), "npnan": np.float64("nan"), "nat": np.datetime64("NaT")}[token]

def _np_scalar(kind, v):
    if kind == "bool": return np.bool_(v)
    if kind == "int": return np.int64(v)
    if kind == "float": return np.float64(v)
    if kind == "str": return np.str_(v)
    if kind == "date": return np.datetime64(v.isoformat(), "D")
    if kind == "datetime": return np.datetime64(v.isoformat(), "us")
    if kind == "datetime_ns": return np.datetime64(v.isoformat(), "ns") + np.timedelta64(137 + v.second * 7, "ns")
    if kind == "timedelta": return np.timedelta64(v)
    return v

def execute(case):
    import dataiter as di
    kind, vals, marks = case["kind"], case["values"], case["marks"]
    n = len(vals)
    flavour, container, dtype = case["flavour"], case["container"], case["dtype"]
    seq = []
    for v, m in zip(vals, marks):
        if m:
            seq.append(_na(case["na_token"]))
        else:
            # "both": Python and NumPy scalars of the same kind side by side (values taken partly from an existing vector)
            seq.append(_np_scalar(kind, v) if flavour == "numpy" or (flavour == "both" and len(seq) % 2 == 0) else v)
    if container == "ndarray_object" and kind in ("mixed",):
        container = "list"
    def make_arg():
        if container == "list": return list(seq)
        if container == "tuple": return tuple(seq)
        if container == "generator": return (x for x in seq)
        a = np.empty(len(seq), dtype=object)
        for i, x in enumerate(seq): a[i] = x
        return a
    nacls = "none" if not any(marks) else ("all" if all(marks) else ("first" if marks[0] and sum(marks) == 1 else "some"))
    res = Result(sig=f"{kind}|{flavour}|{container}|{dtype}|na:{nacls}:{case['na_token'] if any(marks) else ''}|n{min(n, 3)}",
                 nontrivial=n >= 2)
    res.cls(f"kind:{kind}", f"flavour:{flavour}", f"na:{nacls}", f"len:{n if n < 3 else '3+'}", f"container:{container}")
    if dtype: res.cls("dtype-arg")
    np_dtype = {None: None, "int": int, "float": float, "str": str, "object": object, "complex": complex}.get(dtype, dtype)
    ctx = f"Vector({canon.short(seq, 500)} as {container}, dtype={dtype})"
    try:
        v = di.Vector(make_arg(), np_dtype) if dtype else di.Vector(make_arg())
    except Exception as e:
        feat = f"{kind}:{flavour}:{container if container == 'ndarray_object' else 'seq'}:{'dtype=' + dtype if dtype else 'nodtype'}:{'na' if any(marks) else 'plain'}"
        res.violate(f"construct:raised:{exc_name(e)}:{feat}", f"{ctx} raised {e!r}")
        return res.dict()
    arr = np.asarray(v)
    if arr.ndim != 1 or arr.shape[0] != n:
        res.violate("construct:wrong-shape", f"{ctx} has shape {arr.shape}")
        return res.dict()
    is_string = v.is_string() or arr.dtype.kind == "U"
    judged_values = kind not in ("mixed", "datetime_ns") and not (container == "ndarray_object")
    # ---- NA positions
    try:
        na = np.asarray(v.is_na()).tolist()
    except Exception as e:
        res.violate(f"is_na:raised:{exc_name(e)}", f"{ctx}.is_na() raised {e!r}")
        return res.dict()
    exp_na = list(marks)
    if dtype == "object" and case["na_token"] == "nat" and any(marks):
        res.skip("NaT inside an explicit object vector")
        return res.dict()
    if is_string:
        exp_na = [m or (isinstance(x, str) and x == "") for m, x in zip(marks, seq)]
    if kind == "mixed" and not is_string and arr.dtype.kind != "O":
        pass
    if container == "ndarray_object" and not dtype:
        # an ndarray is taken as is (fast path): NaN objects inside an object array are not converted
        exp_na = [m and (x is None) for m, x in zip(marks, seq)] if arr.dtype.kind == "O" else exp_na
    if na != exp_na:
        feat = f"{kind}:{flavour}:{'ndarray' if container == 'ndarray_object' else 'seq'}:{'dtype=' + dtype if dtype else 'nodtype'}"
        res.violate(f"is_na:wrong-positions:{feat}", f"{ctx}: is_na {na} expected {exp_na}; dtype {arr.dtype}; values {canon.short(arr.tolist(), 300)}")
        return res.dict()
    res.count("na-positions-checked", n)
    # ---- NA representative by inferred kind (homogeneous, no dtype argument, python containers)
    if judged_values and any(marks) and not dtype:
        fam = canon.dtype_kind(v)
        want = {"bool": ["object"], "int": ["float"], "float": ["float"], "str": ["string", "ustr"], "date": ["date", "datetime"],
                "datetime": ["datetime"], "datetime_ns": ["datetime"], "timedelta": ["timedelta"] if flavour == "numpy" else ["object", "timedelta"], "bytes": ["object"], "object": ["object"], "complex": ["object"]}[kind]
        if all(marks):
            # nothing but missing values: no numbers, dates or strings to infer a type from. Spelled None, the statement's
            # "None otherwise" applies (an object vector of None, which replace_na can fill with a value of any type);
            # spelled NaN / NaT, the missing value of that spelling's own type is as good
            want = ["object"] if case["na_token"] == "None" else want + ["object", "float", "datetime", "date"]
        if fam not in want:
            res.violate(f"construct:wrong-na-type:{kind}:{flavour}", f"{ctx}: dtype {arr.dtype} (family {fam}), expected one of {want}")
        res.count("na-type-checked")
    # ---- tolist returns the original values with None at NA
    try:
        tl = v.tolist()
    except Exception as e:
        res.violate(f"tolist:raised:{exc_name(e)}", f"{ctx}.tolist() raised {e!r}")
        return res.dict()
    if len(tl) != n or any((t is None) != m for t, m in zip(tl, exp_na)):
        res.violate("tolist:na-not-none", f"{ctx}: tolist {canon.short(tl)} expected None exactly at {exp_na}")
    elif judged_values and (not dtype or dtype in ("float", "int", "str", "datetime64[D]", "datetime64[us]", "bool", "S", "int64", "timedelta64[us]")):
        for i, (t, x, m) in enumerate(zip(tl, vals, exp_na)):
            if m: continue
            a, b = canon.canon_obj(t), canon.canon_obj(x)
            if kind == "bool" and arr.dtype.kind == "O":
                ok = a == b
            elif kind == "float" and arr.dtype == np.float64:
                ok = canon.cell_eq(a, b)
            else:
                ok = canon.cell_eq(a, b, widen=True)
            if not ok:
                res.violate(f"tolist:value-changed:{kind}", f"{ctx}: tolist()[{i}] = {t!r} but the original is {x!r}")
                break
        res.count("tolist-values-checked", n)
    elif kind == "mixed" and not dtype and container != "ndarray_object" and len({type(x) for x, m in zip(vals, exp_na) if not m}) > 1:
        # values of different Python types with no common NumPy type: whatever the vector is stored as, a value that comes back
        # in its original type must be the original value (a date stays that date and time, a string that string)
        for i, (t, x, m) in enumerate(zip(tl, vals, exp_na)):
            if m: continue
            if type(t) is type(x) and not isinstance(x, float) and t != x:
                res.violate("tolist:value-changed:mixed", f"{ctx}: tolist()[{i}] = {t!r} but the original is {x!r}")
                break
            if isinstance(x, datetime.datetime) and isinstance(t, datetime.date) and not isinstance(t, datetime.datetime):
                res.violate("tolist:value-changed:mixed:datetime-truncated", f"{ctx}: tolist()[{i}] = {t!r} but the original is {x!r} (dtype {arr.dtype})")
                break
        res.count("tolist-mixed-checked")
    # ---- rebuild law
    try:
        w = di.Vector(tl, arr.dtype)
        if not v.equal(w):
            res.violate(f"rebuild:not-equal:{canon.dtype_kind(v)}", f"{ctx}: Vector(v.tolist(), v.dtype) = {canon.short(np.asarray(w).tolist())} (dtype {np.asarray(w).dtype}) is not equal to v = {canon.short(arr.tolist())} (dtype {arr.dtype})")
        res.count("rebuild-checked")
    except Exception as e:
        res.violate(f"rebuild:raised:{exc_name(e)}:{canon.dtype_kind(v)}", f"{ctx}: Vector(v.tolist(), {arr.dtype}) raised {e!r}; tolist {canon.short(tl)}")
    # ---- equal: reflexive, symmetric, copy, perturbation
    try:
        c = v.copy()
        if not v.equal(v) or not v.equal(c) or not c.equal(v):
            res.violate("equal:not-reflexive-or-symmetric", f"{ctx}: equal(v,v)={v.equal(v)} equal(v,copy)={v.equal(c)} equal(copy,v)={c.equal(v)}")
        if n >= 1 and arr.dtype.kind in "biufMOUT" or (n >= 1 and is_string):
            from vmon import programs
            p = v.copy()
            nv = programs.different_value(np.asarray(p))
            if nv is not None and not exp_na[0]:
                np.asarray(p)[0] = nv
                if v.equal(p) or p.equal(v):
                    res.violate("equal:ignores-difference", f"{ctx}: equal() true after changing element 0 to {nv!r}")
            if arr.dtype.kind == "f":
                # equality is ==: a value differing in the 7th significant digit is a different value
                idx = next((i for i, m in enumerate(exp_na) if not m and np.isfinite(arr[i]) and arr[i] != 0), None)
                if idx is not None:
                    q1 = v.copy()
                    np.asarray(q1)[idx] = arr[idx] * (1 + 2e-7)
                    q2 = v.copy()
                    np.asarray(q2)[idx] = arr[idx] * (1 + 4e-7)
                    if np.asarray(q1)[idx] != arr[idx] and (v.equal(q1) or q1.equal(v)):
                        res.violate("equal:ignores-small-difference", f"{ctx}: equal() is true for element {idx} = {arr[idx]!r} vs {np.asarray(q1)[idx]!r}")
                    elif v.equal(q1) != q1.equal(v) or (v.equal(q1) and q1.equal(q2) and not v.equal(q2)):
                        res.violate("equal:not-an-equivalence", f"{ctx}: symmetric/transitive law broken around element {idx}")
                    res.count("equal-near-values-checked")
            if n >= 2 and any(exp_na) and not all(exp_na):
                # move the missing mask: a vector with NA at other positions must not be equal
                q = v[::-1].copy()
                if exp_na != exp_na[::-1] and (v.equal(q) or q.equal(v)):
                    res.violate("equal:ignores-na-mask", f"{ctx}: equal(v, reversed v) is true although the missing positions differ")
        res.count("equal-laws-checked")
    except Exception as e:
        res.violate(f"equal:raised:{exc_name(e)}", f"{ctx}: equal raised {e!r}")
    # ---- na_dtype can hold na_value as missing
    try:
        if n >= 1:
            u = v.astype(v.na_dtype)
            u[0] = v.na_value
            if not bool(np.asarray(u.is_na())[0]):
                res.violate(f"na_dtype:cannot-hold-na_value:{canon.dtype_kind(v)}", f"{ctx}: after astype(na_dtype={v.na_dtype}) and assigning na_value={v.na_value!r}, is_na()[0] is False")
            rest_before = canon.col_cells(v)[1:]
            if not canon.cells_eq(canon.col_cells(u)[1:], rest_before, widen=True):
                res.violate(f"na_dtype:cast-changed-values:{canon.dtype_kind(v)}", f"{ctx}: astype(na_dtype) changed other elements")
        res.count("na_dtype-checked")
    except Exception as e:
        res.violate(f"na_dtype:raised:{exc_name(e)}:{canon.dtype_kind(v)}", f"{ctx}: astype(na_dtype)/assign na_value raised {e!r}")
    # ---- same-object history: query, edit in place, query again
    try:
        if n >= 2:
            w = v.astype(v.na_dtype)
            before = np.asarray(w.is_na()).tolist()
            w.tolist()
            tgt = next((i for i, m in enumerate(before) if not m), None)
            if tgt is not None:
                w[tgt] = w.na_value
                after = np.asarray(w.is_na()).tolist()
                exp_after = [m or i == tgt for i, m in enumerate(before)]
                tl2 = w.tolist()
                if after != exp_after or (tl2[tgt] is not None):
                    res.violate(f"history:na-assigned-in-place-not-seen:{canon.dtype_kind(w)}", f"{ctx}: after is_na(), assigning na_value at {tgt} and asking again: is_na {after} expected {exp_after}; tolist {canon.short(tl2)}")
                d2 = w.drop_na()
                if len(np.asarray(d2)) != sum(1 for m in exp_after if not m):
                    res.violate(f"history:drop_na-after-in-place-edit:{canon.dtype_kind(w)}", f"{ctx}: drop_na kept {len(np.asarray(d2))} of {n} with NA mask {exp_after}")
            src = next((i for i, m in enumerate(before) if not m and i != tgt), None)
            hole = next((i for i, m in enumerate(np.asarray(w.is_na()).tolist()) if m), None)
            if src is not None and hole is not None:
                w[hole] = np.asarray(w)[src]
                if bool(np.asarray(w.is_na())[hole]) or w.tolist()[hole] is None:
                    res.violate(f"history:filled-cell-still-missing:{canon.dtype_kind(w)}", f"{ctx}: a missing cell overwritten in place with a value is still reported missing")
        res.count("history-checked")
    except Exception as e:
        res.violate(f"history:raised:{exc_name(e)}:{canon.dtype_kind(v)}", f"{ctx}: {e!r}")
    # ---- drop_na / replace_na locality
    try:
        cells = canon.col_cells(v) if arr.dtype.kind != "O" else [canon.canon_obj(x) for x in arr.tolist()]
        d = v.drop_na()
        exp = [c for c, m in zip(cells, exp_na) if not m]
        got = canon.col_cells(d) if arr.dtype.kind != "O" else [canon.canon_obj(x) for x in np.asarray(d).tolist()]
        if got != exp and not canon.cells_eq(got, exp):
            res.violate("drop_na:wrong-elements", f"{ctx}: drop_na gave {canon.short(got)} expected {canon.short(exp)}")
        keep = [i for i, m in enumerate(exp_na) if not m]
        if keep and judged_values:
            fill = arr[keep[0]]
            r = v.replace_na(fill)
            rc = canon.col_cells(r) if arr.dtype.kind != "O" else [canon.canon_obj(x) for x in np.asarray(r).tolist()]
            exp_r = [cells[keep[0]] if m else c for c, m in zip(cells, exp_na)]
            if rc != exp_r and not canon.cells_eq(rc, exp_r):
                res.violate("replace_na:wrong-elements", f"{ctx}: replace_na({fill!r}) gave {canon.short(rc)} expected {canon.short(exp_r)}")
            pass
        if n and all(marks) and not dtype and case["na_token"] == "None" and container != "ndarray_object":
            # an all-None vector is of no particular type: replace_na must be able to put any value there
            for fill3 in ("n/a", 7, datetime.date(2020, 2, 29)):
                r3 = np.asarray(v.replace_na(fill3)).tolist()
                if r3 != [fill3] * n:
                    res.violate("replace_na:all-missing-vector-cannot-take-value", f"{ctx}: replace_na({fill3!r}) gave {canon.short(r3)}")
                    break
            res.count("replace-all-missing-checked")
        if keep and judged_values:
            if v.is_string() and any(exp_na):
                # a fill value longer than anything in the vector (heap-allocated string in a vector of short ones, and the other way round)
                for fill2 in ("z" * 17 + "\u00f6", "q"):
                    r2 = v.replace_na(fill2)
                    rc2 = canon.col_cells(r2)
                    exp2 = [("S", fill2) if m else c for c, m in zip(cells, exp_na)]
                    if rc2 != exp2:
                        res.violate("replace_na:wrong-elements:fresh-fill", f"{ctx}: replace_na({fill2!r}) gave {canon.short(rc2)} expected {canon.short(exp2)}")
                        break
                res.count("replace-fresh-fill-checked")
        res.count("drop-replace-checked")
    except Exception as e:
        res.violate(f"drop_na/replace_na:raised:{exc_name(e)}", f"{ctx}: {e!r}")
    res.observed = {"dtype": str(arr.dtype), "na": na}
    return res.dict()
