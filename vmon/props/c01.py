# -*- coding: utf-8 -*-
"""
C01 - every data frame is a well-formed rectangular table.

Invariant-at-a-hook monitors U-RECT / U-ATTR (vmon/programs.py) evaluated after
every step of random programs of public DataFrame operations, on the receiver,
every frame argument and the result.
"""

from vmon import programs
from vmon.res import Result

ID = "C01"
LEVEL = "exploration"
CASES = {"quick": 2500, "thorough": 320000}
RULE = ("seeded random programs of 12-30 public DataFrame operations over a pool of 3 live frames (constructors, row subsetting, sort, "
        "unique, five joins, rbind/cbind/update, modify scalar/vector/callable/grouped, select/unselect/rename, item/attribute assignment "
        "and deletion, pop/popitem, colnames=, copy/deepcopy/clear, aggregate/count, converters, file writers+readers, deliberately wrong-length assignments) "
        "over all column dtypes incl. 0-row/0-column/1-row/all-missing shapes and method-named / non-identifier column names; after every "
        "step the monitors check rectangularity, accessor agreement, key/attribute coherence, scalar broadcast, rejection of wrong "
        "lengths, removal; non-trivial = program executed >= 8 steps successfully; distinct = distinct executed operation sequences")
ASSUMPTIONS = [
    "broadcasting a scalar into a 0-row frame may either raise or give a 0-length column (both keep the table well-formed)",
    "an operation raising for a reason that belongs to another property is counted (op_raised) and not judged here; the receiver is still checked",
    "stable order is asserted for operations that do not change the column set (and select gives the requested order); update is exempt",
]
REACH = {"quick": {"rect-checks": 50000, "attr-checks": 50000, "removed-checks": 2000, "broadcast-checks": 1000, "wrong-length-rejected": 500, "order-checks": 5000,
                   "ok:delattr": 100, "ok:delitem": 100, "ok:pop": 100, "ok:colnames": 100, "ok:full_join": 100, "ok:rbind": 100, "ok:new_kwargs": 100, "ok:file_roundtrip": 100}}

def generate(rng, tier):
    return {"pseed": rng.getrandbits(48), "nsteps": rng.randint(12, 30), "kinds": "all" if rng.random() < 0.3 else "safe"}

def execute(case):
    mon = programs.Monitors(rect=True, nomut=False)
    kinds = programs.KINDS_ALL if case["kinds"] == "all" else programs.KINDS_SAFE
    prog = programs.Program(case["pseed"], case["nsteps"], mon, kinds=kinds)
    trace = prog.run()
    ops = [t.split(":")[1] for t in trace]
    res = Result(sig="|".join(ops), nontrivial=sum(prog.ok_ops.values()) >= 8)
    for k, v in mon.counters.items():
        res.count(k, v)
    for k, v in prog.ok_ops.items():
        res.count("ok:" + k, v)
    for v in mon.violations:
        if v["prop"] == "C01":
            res.violate(v["key"], v["msg"] + f" | program seed {case['pseed']} trace {trace[-12:]}")
    res.observed = {"trace": trace[:30]}
    return res.dict()
