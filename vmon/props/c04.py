# -*- coding: utf-8 -*-
"""
C04 - grouping partitions the rows; one summary row per distinct key.

Oracle: dict-of-lists grouping of row ids by canonical key tuple (a missing
cell is a key value of its own), expected group order = ascending per column
with missing last. A *tracer* aggregation returns the group's row-id sequence
as one string, which makes the partition and the within-group order
unambiguous. Shorthand helpers are compared with their lambda twins.
"""

import math

import os

from vmon import canon, gen
from vmon.res import Result, exc_name

ID = "C04"
LEVEL = "exploration"
CASES = {"quick": 8000, "thorough": 800000}
RULE = ("seeded random frames in random row order (row id + 1-3 group columns of any dtype with NA, +-0.0, +-inf, |x|>=2**53, "
        "long/astral strings + a numeric value column) x {aggregate with count/tracer/helper+lambda twin, count, split, grouped modify}; "
        "non-trivial = nrow >= 2 and >= 2 groups or a group of >= 2 rows; distinct = distinct (op, group kinds, nrow class, "
        "NA-key presence, helper) signatures")
ASSUMPTIONS = [
    "dataiter.USE_NUMBA is switched off in this check: the partition logic is shared, and agreement of the Numba kernels is C08's subject",
    "group key equality: both missing, or both non-missing and == ; group order: per column ascending, missing last",
    "group_by() without columns is not judged (the statement quantifies over non-empty tuples of group columns); a 0-row frame has no group: no summary row, no member in any index set, and no error",
]
REACH = {"quick": {"op:aggregate": 2000, "op:count": 500, "op:split": 500, "op:modify": 500, "na-key": 1000, "multi-col": 1000,
                   "twin-compared": 1000, "tag:float_hostile": 100, "after-inplace-edit": 500, "tag:big": 4}}

GKINDS = ["int", "str", "float", "bool", "date", "datetime", "lstr", "ustr", "obool", "float", "str", "timedelta", "uint64", "int", "int_be", "datetime_be", "float_be", "oint", "datetime_ns", "datetime_s"]
HELPERS = [("all", {}), ("any", {}), ("count", {}), ("count", {"drop_na": True}), ("count_unique", {}), ("count_unique", {"drop_na": True}),
           ("first", {}), ("first", {"drop_na": True}), ("last", {}), ("last", {"drop_na": True}), ("nth", {"index": 1}), ("nth", {"index": -2}),
           ("min", {}), ("max", {}), ("min", {"drop_na": False}), ("mode", {}), ("mean", {}), ("mean", {"drop_na": False}),
           ("median", {}), ("median", {"drop_na": False}), ("quantile", {"q": 0.25}), ("quantile", {"q": 0.5, "drop_na": False}), ("std", {}), ("std", {"ddof": 1}), ("var", {}), ("var", {"ddof": 1}), ("std", {"ddof": 2}), ("var", {"ddof": 3}), ("sum", {}), ("sum", {"drop_na": False})]

def generate(rng, tier):
    tags = set()
    r = rng.random()
    nrow = 0 if r < 0.03 else (1 if r < 0.08 else rng.randint(2, 40 if tier == "quick" else 150))
    if rng.random() < 0.004:
        nrow = rng.choice([400, 1300, 10050])     # groups of > 128 / > 1000 rows, > 10 000 rows in all
        tags.add("big")
    ng = rng.choice([1, 1, 2, 2, 3])
    spec = [("_rid_", "int", list(range(nrow)))]
    by = []
    for j in range(ng):
        kind = rng.choice(GKINDS)
        na = rng.choice(["none", "none", "some", "some", "first", "last", "all"])
        vals = gen.gen_values(rng, kind, nrow, na, rng.choice(["few", "few", "few", "distinct", "equal"]), hostile=0.5, tags=tags)
        spec.append((f"g{j}", kind, vals))
        by.append(f"g{j}")
    xkind = rng.choice(["float", "float", "int", "bool", "date", "str", "timedelta", "datetime"])
    spec.append(("x", xkind, gen.gen_values(rng, xkind, nrow, rng.choice(["none", "some", "some", "all"]), "few", 0.0, tags)))
    rng.shuffle(by)
    op = rng.choice(["aggregate", "aggregate", "aggregate", "count", "split", "modify"])
    case = {"op": op, "spec": spec, "by": by, "tags": sorted(tags)}
    if op == "aggregate":
        name, kw = rng.choice(HELPERS)
        while xkind in ("date", "str", "timedelta", "datetime") and name in ("all", "any", "mean", "median", "quantile", "std", "var", "sum"):
            name, kw = rng.choice(HELPERS)        # value columns that are not numbers: the helpers defined for every type
        if "big" in tags and name == "count_unique" and xkind in ("date", "datetime", "timedelta"):
            # (cost limiter, not a judgement: with missing values kept, counting thousands of NaT -- equal hashes, unequal values --
            #  is quadratic in the library's set-based count; the kept-NaT case stays covered by the small frames)
            kw = {"drop_na": True}
        case["helper"] = (name, dict(kw))
    if nrow and rng.random() < 0.25:
        col = by[0]
        kind = [s_[1] for s_ in spec if s_[0] == col][0]
        if kind in ("str", "int", "float", "date", "bool"):
            case["edit"] = (col, rng.randrange(nrow), rng.choice(gen.pool(rng, kind, 0.0)))
    return case

def _ordkey(cell):
    return (1, 0) if cell == canon.NA else (0, cell[1])

def _norm(cell):
    return cell if cell == canon.NA else (cell[1] if cell[0] == "N" else cell)

def execute(case):
    import dataiter as di
    import numpy as np
    di.USE_NUMBA = False
    op, spec, by = case["op"], case["spec"], case["by"]
    nrow = len(spec[0][2])
    kind_of = {s[0]: s[1] for s in spec}
    df = gen.build_frame(spec)
    ed = case.get("edit")
    if ed and nrow:
        # same-object history: group once, assign one key cell in place, then the judged call
        col, pos, newv = ed
        try:
            df.count(*by); df.split(*by); df.sort(**{col: 1})
        except Exception:
            pass
        arr = np.asarray(dict.__getitem__(df, col))
        arr[pos % nrow] = gen.np_column(kind_of[col], [newv])[0]
    pre = canon.frame_cells(df)
    groups = {}
    for i in range(nrow):
        groups.setdefault(tuple(_norm(pre[g][i]) for g in by), []).append(i)
    gkeys = sorted(groups, key=lambda k: tuple((1, 0) if c == canon.NA else (0, c[1] if isinstance(c, tuple) else c) for c in k))
    na_key = any(c == canon.NA for k in groups for c in k)
    hname = case.get("helper", ("", {}))[0]
    res = Result(sig=f"{op}|{','.join(kind_of[g] for g in by)}|n{gen.nrow_class(nrow)}|na{int(na_key)}|{hname}{sorted(case.get('helper', ('', {}))[1].items())}",
                 nontrivial=nrow >= 2 and (len(groups) >= 2 or any(len(v) >= 2 for v in groups.values())))
    res.cls(f"op:{op}")
    if na_key: res.cls("na-key")
    if len(by) > 1: res.cls("multi-col")
    if case.get("edit") and nrow: res.cls("after-inplace-edit")
    for t in case["tags"]: res.cls("tag:" + t)
    if nrow == 0:
        # no rows: no distinct key combination, so no summary row, no index set with a member, no modified row -- and no error,
        # whether the summaries are helpers or arbitrary functions (a pipeline whose filter happened to keep nothing)
        res.cls("nrow:0")
        res.nontrivial = False
        ctx0 = f"0-row frame, by={by}; spec {canon.short(spec, 600)}"
        helper = None
        if case.get("helper"):
            hn, kw = case["helper"]
            kws = dict(kw)
            args = [kws.pop("index")] if hn == "nth" else ([kws.pop("q")] if hn == "quantile" else [])
            helper = getattr(di, hn)("x", *args, **kws)
        calls = [("aggregate-lambda", lambda: df.group_by(*by).aggregate(n=lambda x: x.nrow), list(by) + ["n"]),
                 ("aggregate-count", lambda: df.group_by(*by).aggregate(k=di.count()), list(by) + ["k"]),
                 ("count", lambda: df.count(*by), list(by) + ["n"]),
                 ("modify", lambda: df.group_by(*by).modify(zz=lambda x: x._rid_), list(pre) + ["zz"])]
        if helper is not None:
            calls.append(("aggregate-helper+lambda", lambda: df.group_by(*by).aggregate(h=helper, n=lambda x: x.nrow), list(by) + ["h", "n"]))
        for label, f, cols in calls:
            try:
                out = f()
            except Exception as e:
                res.violate(f"empty:{label}:raised:{exc_name(e)}", f"{label} raised {e!r}; {ctx0}")
                continue
            oc = canon.frame_cells(out)
            if list(oc) != cols or any(len(v) for v in oc.values()):
                res.violate(f"empty:{label}:wrong-result", f"{label} gave columns {list(oc)} with lengths {[len(v) for v in oc.values()]}, expected {cols} with no rows; {ctx0}")
            res.count("empty-frame-calls")
        try:
            parts = df.split(*by)
            if any(len(np.asarray(p_)) for p_ in parts):
                res.violate("empty:split:non-empty-index-set", f"split gave {canon.short([np.asarray(p_).tolist() for p_ in parts])}; {ctx0}")
        except Exception as e:
            res.violate(f"empty:split:raised:{exc_name(e)}", f"split raised {e!r}; {ctx0}")
        if canon.frame_cells(df) != pre:
            res.violate("empty:mutated-input", ctx0)
        return res.dict()
    ctx = f"by={by}; spec {canon.short(spec, 1200)}"
    exp_rows = [groups[k] for k in gkeys]
    def check_group_columns(oc, n_out):
        if n_out != len(gkeys):
            res.violate(f"{op}:wrong-group-count", f"{n_out} output rows for {len(gkeys)} distinct keys; {ctx}; got {canon.short(oc, 600)}")
            return False
        for j, g in enumerate(by):
            got = [_norm(c) for c in oc[g]]
            exp = [k[j] for k in gkeys]
            if got != exp:
                res.violate(f"{op}:group-keys-wrong-or-unordered", f"group column {g}: got {canon.short(got, 400)} expected {canon.short(exp, 400)}; {ctx}")
                return False
        return True
    try:
        if op == "aggregate":
            name, kw = case["helper"]
            f = getattr(di, name)
            args = []
            kws = dict(kw)
            if name == "nth": args = [kws.pop("index")]
            if name == "quantile": args = [kws.pop("q")]
            if name == "count":
                short = f("x", **kws)
            else:
                short = f("x", *args, **kws)
            twin = lambda d: f(d.x, *args, **kws)
            xlist = dict.__getitem__(df, "x").tolist()
            # xs / ids2 come AFTER the helper in the same call: every summary sees the group's rows in their original order, whatever ran before it
            summaries = dict(n=di.count(), ids=lambda d: ",".join(map(str, d._rid_.tolist())), y=short, y2=twin,
                             k=lambda d: d.nrow, xs=lambda d: ",".join(map(repr, d.x.tolist())), ids2=lambda d: ",".join(map(str, d._rid_.tolist())))
            if nrow % 2 == 0:
                # the shorthand helper runs first, before any lambda has looked at the group-wise subsets
                summaries = dict(y=summaries.pop("y"), **summaries)
                res.cls("aggregate:helper-first")
            elif nrow % 3 == 0 and not (ed and nrow):
                # a summary FUNCTION that scribbles on the group-wise subset it was handed: the subsets belong to the functions (whether
                # another function sees the scribble is not specified), but a shorthand helper later in the same call reads the frame's data
                def scribble(d):
                    a_ = np.asarray(d.x)
                    if len(a_):
                        a_[:] = a_[0]
                    return len(a_)
                out_s = df.group_by(*by).aggregate(scr=scribble, y=short)
                ref_s = gen.build_frame(spec).group_by(*by).aggregate(y=f("x", *args, **kws) if name != "count" else f("x", **kws))
                ys, yr = canon.col_cells(dict.__getitem__(out_s, "y")), canon.col_cells(dict.__getitem__(ref_s, "y"))
                if not canon.cells_eq(ys, yr, widen=True, tol=(1e-9, 1e-9)):
                    res.violate(f"aggregate:helper-sees-what-a-function-did-to-its-subset:{name}", f"{name}{kw} after a function that overwrote its own group subset: {canon.short(ys, 300)} expected {canon.short(yr, 300)}; {ctx}")
                if canon.frame_cells(df) != pre:
                    res.violate("aggregate:mutated-input", f"a function overwriting its group subset changed the receiver; {ctx}")
                res.cls("aggregate:impure-function-first")
                res.count("impure-function-checked")
            out = df.group_by(*by).aggregate(**summaries)
            oc = canon.frame_cells(out)
            if list(oc) == by + list(summaries):
                oc = {k_: oc[k_] for k_ in by + ["n", "ids", "y", "y2", "k", "xs", "ids2"]}
            xs_got = [c[1] if c != canon.NA else "" for c in oc.pop("xs", [])]
            ids2_got = [c[1] if c != canon.NA else "" for c in oc.pop("ids2", [])]
            if list(oc) != by + ["n", "ids", "y", "y2", "k"]:
                res.violate("aggregate:wrong-columns", f"{list(oc)}; {ctx}")
                return res.dict()
            if check_group_columns(oc, canon.frame_nrow(out)):
                ids = [c[1] if c != canon.NA else "" for c in oc["ids"]]
                exp_ids = [",".join(map(str, r)) for r in exp_rows]
                if ids != exp_ids:
                    res.violate("aggregate:wrong-partition-or-order", f"tracer got {ids} expected {exp_ids}; {ctx}")
                else:
                    xs_exp = [",".join(repr(xlist[i]) for i in r) for r in exp_rows]
                    if xs_got != xs_exp or ids2_got != exp_ids:
                        res.violate(f"aggregate:later-summary-sees-disturbed-rows:{name}", f"after {name}{kw} in the same call a lambda saw x = {xs_got[:6]} rids {ids2_got[:6]}, expected {xs_exp[:6]} / {exp_ids[:6]}; {ctx}")
                    res.count("post-helper-tracers")
                ns = [c[1] for c in oc["n"]]
                ks = [c[1] for c in oc["k"]]
                if ns != [len(r) for r in exp_rows] or ks != ns or sum(ns) != nrow:
                    res.violate("aggregate:wrong-counts", f"count() gave {ns}, nrow lambda gave {ks}, expected {[len(r) for r in exp_rows]}; {ctx}")
                xna = any(c == canon.NA for c in pre["x"])
                if True:
                    tol = (1e-9, 1e-9)
                    if not canon.cells_eq(oc["y"], oc["y2"], widen=True, tol=tol):
                        res.violate(f"aggregate:helper-differs-from-lambda:{name}", f"{name}{kw}: shorthand {canon.short(oc['y'], 400)} vs lambda {canon.short(oc['y2'], 400)}; {ctx}")
                    res.count("twin-compared")
        elif op == "count":
            out = df.count(*by)
            oc = canon.frame_cells(out)
            if list(oc) != by + ["n"]:
                res.violate("count:wrong-columns", f"{list(oc)}; {ctx}")
                return res.dict()
            if check_group_columns(oc, canon.frame_nrow(out)):
                ns = [c[1] for c in oc["n"]]
                if ns != [len(r) for r in exp_rows]:
                    res.violate("count:wrong-counts", f"got {ns} expected {[len(r) for r in exp_rows]}; {ctx}")
        elif op == "split":
            parts = df.split(*by)
            got = [np.asarray(p).tolist() for p in parts]
            flat = [i for p in got for i in p]
            if sorted(flat) != list(range(nrow)):
                res.violate("split:not-a-partition", f"split gave {got} for {nrow} rows; {ctx}")
            elif got != exp_rows:
                res.violate("split:wrong-groups-or-order", f"split gave {canon.short(got, 500)} expected {canon.short(exp_rows, 500)}; {ctx}")
        else:
            out = df.group_by(*by).modify(f=lambda d: d.nrow, s=lambda d: int(d._rid_.sum()), r=lambda d: d._rid_,
                                          h=lambda d: 1 if d.nrow == 1 else d._rid_ / 2)
            oc = canon.frame_cells(out)
            names = [s[0] for s in spec]
            if list(oc) != names + ["f", "s", "r", "h"]:
                res.violate("modify:wrong-columns", f"{list(oc)}; {ctx}")
                return res.dict()
            for n in names:
                if not canon.cells_eq(oc[n], pre[n]):
                    res.violate("modify:original-columns-changed", f"column {n}: {canon.first_diff(oc[n], pre[n])}; {ctx}")
                    return res.dict()
            size = {}
            ssum = {}
            for k, rows in groups.items():
                for i in rows:
                    size[i] = len(rows)
                    ssum[i] = sum(rows)
            r = [c[1] for c in oc["r"]]
            f_ = [c[1] for c in oc["f"]]
            s_ = [c[1] for c in oc["s"]]
            h_ = [c[1] if c != canon.NA else None for c in oc["h"]]
            h_exp = [1 if size[i] == 1 else i / 2 for i in range(nrow)]
            if r != list(range(nrow)):
                res.violate("modify:misaligned", f"group-wise vector result not aligned with original rows: r={r}; {ctx}")
            elif h_ != h_exp:
                res.violate("modify:wrong-group-values:mixed-result-dtypes", f"h (1 for single-row groups, rid/2 otherwise) = {h_} expected {h_exp}; {ctx}")
            elif f_ != [size[i] for i in range(nrow)] or s_ != [ssum[i] for i in range(nrow)]:
                res.violate("modify:wrong-group-values", f"f={f_} s={s_} expected {[size[i] for i in range(nrow)]} {[ssum[i] for i in range(nrow)]}; {ctx}")
    except Exception as e:
        res.violate(f"{op}:raised:{exc_name(e)}:{hname}", f"{op} raised {e!r}; helper={case.get('helper')}; {ctx}")
        return res.dict()
    post = canon.frame_cells(df)
    if post != pre:
        res.violate(f"{op}:mutated-input", f"receiver changed; {ctx}")
    res.count("groups-checked", len(gkeys))
    res.observed = {"nrow": nrow, "groups": len(gkeys)}
    return res.dict()
