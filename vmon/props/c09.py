# -*- coding: utf-8 -*-
"""
C09 - combining and reshaping columns preserves every untouched value.

Oracle: list-of-columns model. rbind = per name (first-seen order) the
concatenation of each input's cells or NA x nrow; select / unselect / rename /
cbind / update / modify / colnames= are dictionary surgery on (name -> cells)
with the stated order rules; every column is compared cell by cell.
"""

import numpy as np

from vmon import canon, gen
from vmon.res import Result, exc_name

ID = "C09"
LEVEL = "exploration"
CASES = {"quick": 12000, "thorough": 720000}
RULE = ("seeded random tuples of 1-4 frames with overlapping/disjoint/identical column sets, promotable dtype pairs, NA fill for every "
        "dtype, 0-row and 0-column operands in any position (rbind) and single frames x {select, unselect, rename incl. swaps/cycles, "
        "cbind incl. duplicate names and 1-row operands, update, modify scalar/vector/callable add+replace, colnames= permutations and "
        "fresh names}; non-trivial = result has >= 2 columns or >= 2 rows; distinct = distinct (op, column kinds, shape classes, variant) signatures")
ASSUMPTIONS = [
    "rbind: only NumPy-promotable kinds share a name (int+float, bool+int, bool+float, date+datetime, string kinds); a bool cell may read back as 1/0 after promotion",
    "rename to an existing name that is not itself renamed, and colnames of the wrong length, are not generated",
    "integers > 2**53 in a column widened to float compare as float(x)",
]
REACH = {"quick": {"op:rbind": 2000, "op:rename": 500, "op:colnames": 500, "op:select": 500, "op:cbind": 500, "op:update": 500, "op:modify": 500,
                   "rbind:lacking-column": 800, "rbind:zero-row-operand": 200, "rbind:zero-col-operand": 100, "rename:permutation": 200, "colnames:permutation": 200}}

OPS = ["rbind", "rbind", "rbind", "select", "unselect", "rename", "cbind", "update", "modify", "colnames"]
PROMOTE = {"int": ["int", "float", "bool"], "float": ["float", "int", "bool"], "bool": ["bool", "int"], "date": ["date", "datetime"],
           "datetime": ["datetime", "date"], "str": ["str", "lstr", "ustr"], "lstr": ["lstr", "str"], "ustr": ["ustr", "str"], "obool": ["obool"], "obj": ["obj"],
           "timedelta": ["timedelta"], "datetime_ns": ["datetime_ns", "datetime"], "uint64": ["uint64"], "float32": ["float32", "float"], "complex": ["complex"]}
NAMES = ["a", "b", "c", "d", "e", "f", "ab", "e_f", "a*", "e?", "[ab]"]      # some names are substrings of others, some look like shell / regex patterns

def generate(rng, tier):
    tags = set()
    op = rng.choice(OPS)
    case = {"op": op, "tags": None}
    if op == "rbind":
        nf = rng.choice([1, 2, 2, 3, 4])
        kind_of = {}
        frames = []
        for i in range(nf):
            r = rng.random()
            nrow = 0 if r < 0.12 else rng.randint(1, 6)
            ncol = 0 if rng.random() < 0.06 else rng.randint(1, 4)
            names = rng.sample(NAMES, ncol)
            spec = []
            empty_float = rng.random() < 0.4
            for n in names:
                if n in kind_of:
                    kind = rng.choice(PROMOTE[kind_of[n]]) if rng.random() < 0.4 else kind_of[n]
                else:
                    kind = rng.choice(["int", "float", "bool", "str", "date", "datetime", "obool", "lstr", "ustr", "obj", "timedelta", "datetime_ns", "uint64", "float32", "complex"])
                    kind_of[n] = kind
                if nrow == 0 and empty_float:
                    kind = "float"        # a frame without rows that was made from empty lists: DataFrame(a=[], b=[]) has float columns
                spec.append((n, kind, gen.gen_values(rng, kind, nrow, rng.choice(gen.NA_PATTERNS), "few", 0.3, tags)))
            frames.append(spec)
        case["frames"] = frames
    else:
        nrow = rng.choice([0, 1, 2, rng.randint(3, 8)])
        ncol = rng.randint(1, 5)
        names = rng.sample(NAMES, ncol)
        spec = [(n, k, gen.gen_values(rng, k, nrow, rng.choice(gen.NA_PATTERNS), "few", 0.3, tags))
                for n, k in ((n, rng.choice(gen.KINDS_KEY + ["obj", "timedelta", "datetime_ns", "uint64"])) for n in names)]
        case["spec"] = spec
        if op in ("select", "unselect"):
            k = rng.randint(0 if op == "unselect" else 1, ncol)
            sel = rng.sample(names, k)
            case["names"] = sel
        elif op == "rename":
            k = rng.randint(1, ncol)
            olds = rng.sample(names, k)
            r = rng.random()
            if r < 0.4 and k >= 2:
                news = olds[1:] + olds[:1]            # cyclic permutation of existing names
                case["variant"] = "permutation"
            elif r < 0.5 and k >= 2:
                news = list(olds)
                rng.shuffle(news)
                case["variant"] = "permutation"
            else:
                fresh = [n for n in ["u", "v", "w", "x", "y", "z"]]
                news = rng.sample(fresh, k)
                case["variant"] = "fresh"
            case["pairs"] = list(zip(news, olds))
        elif op == "colnames":
            r = rng.random()
            if r < 0.5 and ncol >= 2:
                new = list(names)
                while new == names:
                    rng.shuffle(new)
                case["variant"] = "permutation"
            elif r < 0.75:
                new = rng.sample(["u", "v", "w", "x", "y", "z", ""], ncol)      # the empty string is a name like any other
                case["variant"] = "fresh"
            else:
                pool = names + ["u", "v", "w", ""]
                new = rng.sample(pool, ncol)
                case["variant"] = "mixed"
            case["new"] = new
        elif op in ("cbind", "update"):
            others = []
            for i in range(rng.choice([1, 1, 2])):
                onrow = nrow if rng.random() < 0.7 or nrow == 0 else 1
                oncol = rng.randint(1, 3)
                onames = rng.sample(NAMES + ["u", "v"], oncol)
                others.append([(n, k, gen.gen_values(rng, k, onrow, rng.choice(gen.NA_PATTERNS), "few", 0.3, tags))
                               for n, k in ((n, rng.choice(gen.KINDS_KEY)) for n in onames)])
            case["others"] = others if op == "cbind" else others[:1]
        elif op == "modify":
            mods = []
            for n in rng.sample(names + ["u", "v"], rng.randint(1, 3)):
                k = rng.choice(["int", "float", "str", "bool", "date"])
                form = rng.choice(["scalar", "vector", "callable", "callable_scalar", "callable_col", "callable_col", "generator", "callable_iter"])
                if nrow == 0 and form in ("scalar", "callable_scalar"):
                    form = "vector"
                if form == "callable_col":
                    # a function of the data frame: reads one of the receiver's columns (possibly one that another keyword of the same call replaces)
                    mods.append((n, rng.choice(names), form, []))
                    continue
                vals = gen.gen_values(rng, k, 1 if form in ("scalar", "callable_scalar") else nrow, "none", "few", 0.2, tags)
                mods.append((n, k, form, vals))
            case["mods"] = mods
    case["tags"] = sorted(tags)
    return case

def _cell_ok(got, exp, promote):
    if canon.cell_eq(got, exp, widen=True):
        return True
    if promote and exp != canon.NA and exp[0] == "B" and got != canon.NA and got[0] == "N":
        return got[1] == int(exp[1])
    return False

def _compare(res, op, out, expected, ctx, promote=False):
    oc = canon.frame_cells(out)
    if list(oc) != [n for n, _ in expected]:
        res.violate(f"{op}:wrong-columns-or-order", f"columns {list(oc)} expected {[n for n, _ in expected]}; {ctx}")
        return
    for n, cells in expected:
        got = oc[n]
        if len(got) != len(cells):
            res.violate(f"{op}:wrong-row-count", f"column {n} has {len(got)} rows expected {len(cells)}; {ctx}")
            return
        for i, (g, e) in enumerate(zip(got, cells)):
            if not _cell_ok(g, e, promote):
                kind = "fill-not-missing" if e == canon.NA else "value-changed"
                res.violate(f"{op}:{kind}", f"column {n} row {i}: got {g} expected {e}; {ctx}; result {canon.short(oc, 600)}")
                return
    res.count("cells-compared", sum(len(c) for _, c in expected))

def execute(case):
    import dataiter as di
    import numpy as np
    op = case["op"]
    variant = case.get("variant", "")
    res = Result()
    res.cls(f"op:{op}")
    if variant:
        res.cls(f"{op}:{variant}")
    for t in case["tags"]:
        res.cls("tag:" + t)
    if op == "rbind":
        frames = case["frames"]
        if len(frames) >= 2 and len(repr(frames[0])) % 7 == 0:
            # the same frame OBJECT appears twice among the operands (data.rbind(data), rbind(a, b, a))
            frames = list(frames) + [frames[0]]
            dfs = [gen.build_frame(s) for s in frames[:-1]]
            dfs.append(dfs[0])
            res.cls("rbind:same-object-twice")
        else:
            dfs = [gen.build_frame(s) for s in frames]
        pres = [canon.frame_cells(d) for d in dfs]
        nrows = [len(s[0][2]) if s else 0 for s in frames]
        names = []
        for s in frames:
            for n, _, _ in s:
                if n not in names:
                    names.append(n)
        lacking = any(n not in p for p in pres for n in names)
        kinds = sorted({k for s in frames for _, k, _ in s})
        res.sig = f"rbind|{len(frames)}|{','.join(kinds)}|rows{sorted(set(gen.nrow_class(n) for n in nrows))}|lack{int(lacking)}"
        res.nontrivial = len(frames) >= 2 and sum(nrows) >= 1
        if lacking: res.cls("rbind:lacking-column")
        if any(n == 0 for n, s in zip(nrows, frames) if s): res.cls("rbind:zero-row-operand")
        if any(not s for s in frames): res.cls("rbind:zero-col-operand")
        mixed = {n for n in names if len({k for s in frames for nn, k, _ in s if nn == n}) > 1}
        if mixed: res.cls("rbind:promoted-dtypes")
        expected = []
        padded = {}
        for n in names:
            cells = []
            padded[n] = []
            for p, nr in zip(pres, nrows):
                padded[n] += [n not in p] * nr
                cells += p[n] if n in p else [canon.NA] * nr
            expected.append((n, cells))
        ctx = f"rbind of {canon.short(frames, 1500)}"
        try:
            out = dfs[0].rbind(*dfs[1:])
        except Exception as e:
            feat = "zero-col" if any(not s for s in frames) else ("zero-row" if any(n == 0 for n in nrows) else "plain")
            res.violate(f"rbind:raised:{exc_name(e)}:{feat}", f"raised {e!r}; {ctx}")
            return res.dict()
        _compare(res, op, out, expected, ctx, promote=True)
        if lacking and list(dict.keys(out)) == [n for n, _ in expected]:
            # "missing values in a type able to hold them": the padded cells must be missing in the library's OWN sense (is_na), not only look like it
            for n, cells in expected:
                try:
                    flags = [bool(x) for x in np.asarray(dict.__getitem__(out, n).is_na()).tolist()]
                except Exception as e:
                    res.violate(f"rbind:is_na-raised:{exc_name(e)}", f"column {n!r}: {e!r}; {ctx}"); break
                pad = padded[n]
                if len(flags) == len(pad) and any(p_ and not f_ for p_, f_ in zip(pad, flags)):
                    res.violate("rbind:padding-not-missing-for-is_na", f"column {n!r} dtype {np.asarray(dict.__getitem__(out, n)).dtype}: is_na {flags} but the positions {pad} were contributed by inputs lacking the column; {ctx}")
                    break
                res.count("rbind:is_na-of-result-checked")
        for d, p in zip(dfs, pres):
            if canon.frame_cells(d) != p:
                res.violate("rbind:mutated-input", ctx)
        return res.dict()
    spec = case["spec"]
    nrow = len(spec[0][2])
    df = gen.build_frame(spec)
    pre = canon.frame_cells(df)
    names = list(pre)
    res.sig = f"{op}|{variant}|{','.join(sorted(k for _, k, _ in spec))}|n{gen.nrow_class(nrow)}|c{len(names)}"
    res.nontrivial = len(names) >= 2 or nrow >= 2
    ctx = f"{op} {canon.short({k: v for k, v in case.items() if k not in ('spec', 'tags', 'op')}, 700)} on {canon.short(spec, 1000)}"
    inplace = False
    try:
        if op == "select":
            out = df.select(*case["names"])
            expected = [(n, pre[n]) for n in case["names"]]
        elif op == "unselect":
            out = df.unselect(*case["names"])
            expected = [(n, pre[n]) for n in names if n not in case["names"]]
        elif op == "rename":
            m = {old: new for new, old in case["pairs"]}
            out = df.rename(**{new: old for new, old in case["pairs"]})
            expected = [(m.get(n, n), pre[n]) for n in names]
        elif op == "colnames":
            inplace = True
            df.colnames = list(case["new"])
            out = df
            expected = [(nn, pre[n]) for nn, n in zip(case["new"], names)]
        elif op in ("cbind", "update"):
            others = [gen.build_frame(s) for s in case["others"]]
            opres = [canon.frame_cells(o) for o in others]
            def bc(cells):
                return cells * nrow if len(cells) == 1 and nrow != 1 else cells
            if op == "cbind":
                out = df.cbind(*others)
                expected = [(n, pre[n]) for n in names]
                for p in opres:
                    for n, c in p.items():
                        if n not in [e[0] for e in expected]:
                            expected.append((n, bc(c)))
            else:
                out = df.update(others[0])
                expected = [(n, pre[n]) for n in names if n not in opres[0]] + [(n, bc(c)) for n, c in opres[0].items()]
        elif op == "modify":
            kw = {}
            scalar_forms = []
            exp = {n: pre[n] for n in names}
            order = list(names)
            for n, k, form, vals in case["mods"]:
                if form == "callable_col":
                    kw[n] = (lambda src: (lambda d: d[src].copy()))(k)
                    exp[n] = pre[k]
                    res.cls("modify:function-of-receiver-column")
                    if n not in order:
                        order.append(n)
                    continue
                arr = gen.np_column(k, vals)
                cells = gen.expected_cells(k, vals)
                pyscalar = form in ("scalar", "callable_scalar") and len(repr(vals)) % 2 == 0 and k != "float"
                if pyscalar:
                    # the Python value itself (a date, a str, an int ...) rather than a NumPy scalar
                    scalar_forms.append((n, vals[0]))
                if form == "scalar":
                    kw[n] = vals[0] if pyscalar else arr[0]
                    cells = cells * nrow
                elif form == "vector":
                    kw[n] = di.Vector(arr)
                elif form == "generator":
                    kw[n] = (x for x in arr.tolist()) if k in ("int", "float", "bool") else iter(list(arr))      # any one-shot iterable of the values
                elif form == "callable_iter":
                    kw[n] = (lambda a: (lambda d: map(lambda x: x, list(a))))(arr)
                elif form == "callable":
                    kw[n] = (lambda a: (lambda d: di.Vector(a)))(arr)
                else:
                    kw[n] = (lambda a: (lambda d: a[0]))(vals if pyscalar else arr)
                    cells = cells * nrow
                exp[n] = cells
                if n not in order:
                    order.append(n)
            if names and len(repr(spec)) % 4 == 0:
                # the frame was counted / summarised by one of its columns earlier: that leaves no trace on the frame
                try:
                    df.count(names[0]); df.unique(names[0]); df.sort(**{names[0]: 1})
                    res.cls("modify:after-count-on-receiver")
                except Exception:
                    pass
            out = df.modify(**kw)
            expected = [(n, exp[n]) for n in order]
            for n, v in scalar_forms:
                # a scalar is broadcast: the column is the one the same value repeated nrow times gives (of the same type, too)
                if n in dict.keys(out) and nrow:
                    have, want = canon.dtype_kind(dict.__getitem__(out, n)), canon.dtype_kind(di.Vector([v] * nrow))
                    if have != want:
                        res.violate(f"modify:scalar-broadcast-differs-from-vector-form:{type(v).__name__}", f"modify({n}={v!r}) gave a {have} column ({np.asarray(dict.__getitem__(out, n)).dtype}), modify({n}=[{v!r}] * {nrow}) a {want} column; {ctx}")
                    res.count("scalar-vs-vector-form-checked")
    except Exception as e:
        res.violate(f"{op}:raised:{exc_name(e)}:{variant or 'plain'}", f"raised {e!r}; {ctx}")
        return res.dict()
    _compare(res, op, out, expected, ctx)
    if not inplace and canon.frame_cells(df) != pre:
        res.violate(f"{op}:mutated-input", ctx)
    res.observed = {"columns": [n for n, _ in expected]}
    return res.dict()
