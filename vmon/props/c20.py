# -*- coding: utf-8 -*-
"""
C20 - text rendering is total, side-effect free and structurally faithful.

Oracle: (a) str / repr / to_string / print_ must not raise and must leave the
object unchanged (snapshot before/after); (b) a small parser of the documented
DataFrame layout ('.', blocks of name / dtype / rule / rows separated by blank
lines, '.', optional total line) applied to the returned string: every column
name and dtype label shown, min(nrow, max_rows) data rows per block, equal
display width (wcwidth) of all lines of a block, total line when rows are cut;
print_ output must equal to_string.
"""

import math
import os
import sys

import numpy as np
import wcwidth

from vmon import canon, gen, programs
from vmon.res import Result, exc_name, capture_stdout

ID = "C20"
LEVEL = "exploration"
CASES = {"quick": 6000, "thorough": 240000}
RULE = ("seeded random Vectors, DataFrames, GeoJSON frames (incl. null geometries) and ListOfDicts over all dtypes (incl. float32, uint64, bytes, "
        "timedelta, complex, object cells holding dicts/lists/multi-line strings), NaN/+-inf/huge/tiny floats in one column, wide / combining / "
        "non-BMP characters, 0-row and 0-column shapes x max_rows>=1, max_width>=1, truncate_width>=1, max_elements, max_items>=0, PRINT_* "
        "settings and COLUMNS; non-trivial = object has >= 1 element/row/item; distinct = distinct (class, dtypes, shape class, option set) signatures")
ASSUMPTIONS = [
    "the equal-width clause is skipped for a block containing a character for which wcwidth is undefined (control characters)",
    "max_rows=0/None mean 'default' by the signature, so only max_rows >= 1 is judged for the row-count clause",
    "a column name with a line break is expected to show as its first line followed by an ellipsis (like a multi-line cell); ListOfDicts keys are strings",
]
REACH = {"quick": {"cls:vector": 900, "cls:frame": 2000, "cls:geojson": 500, "cls:lod": 800, "layout-parsed": 2000, "rows-cut": 300, "print_-compared": 1500,
                   "wide-chars": 500, "zero-row-frame": 100, "geojson:null-geometry": 150, "multi-block": 300, "grouped-frame": 200}}

WIDE = ["日本語", "ｗｉｄｅ", "é", "\U0001F600", "漢", "ö", "áb"]
MULTI = ["trail\n", "\n", "crlf\r\n", "ls\u2028", "line1\nline2", "a\nb\nc", "tab\there", "cr\r\nlf", "lone\rcr", "sep\u2028arator", "form\x0cfeed", "next\x85line", "para\u2029graph"]
KINDS = ["bool", "int", "float", "str", "lstr", "ustr", "date", "datetime", "obool", "obj", "float32", "int32", "uint64", "bytes", "timedelta", "complex", "datetime_ns", "datetime_s", "int_be"]

def _values(rng, kind, n):
    if kind == "float":
        pool = gen.FLOAT_SMALL + gen.FLOAT_HOSTILE + [1e-10, 123456789.123, 1e17, -1e-5]
        vals = [rng.choice(pool) for _ in range(n)]
        return [None if rng.random() < 0.2 else v for v in vals]
    if kind in ("str", "ustr"):
        # (the same hostile strings whether the column is the library's string type or a NumPy fixed-width one)
        pool = gen.STR_SHORT + WIDE + MULTI + ["q" * 60, 'say "hi"', ""]
        return [None if rng.random() < 0.15 else rng.choice(pool) for _ in range(n)]
    if kind == "bytes":
        return [rng.choice([b"a", b"bc", b"", b"zzz", b"\xff\xfe", b"caf\xe9", b"\x80"]) for _ in range(n)]      # not all bytes are text
    if kind == "obj":
        pool = [{"k": 1}, [1, 2, 3], "multi\nline", (1, 2), None, 3.5, "日本", {"nested": {"a": [1, 2]}}, "x" * 80]
        return [rng.choice(pool) for _ in range(n)]
    return gen.gen_values(rng, kind, n, rng.choice(gen.NA_PATTERNS), "few", 0.4)

FRESH_CHILD = r"""
import sys, json, os
os.environ.pop("COLUMNS", None)
import numpy as np, dataiter as di
vals, narrow, wide = json.loads(sys.argv[1]), sys.argv[2], sys.argv[3]
v = di.Vector(np.array(vals, dtype=narrow).astype(wide))
sys.stdout.write(v.to_string())
"""

def generate(rng, tier):
    if rng.random() < 0.004:
        # rendering leaves no trace: a float vector looks the same in a fresh process as here, after its twin of another precision
        # (the same numbers as float16 / float32) was rendered first
        narrow = rng.choice(["float32", "float32", "float16"])
        return {"cls": "fresh-process-twin", "settings": {}, "columns_env": None, "narrow": narrow, "wide": rng.choice(["float64", "float64", "float32"] if narrow == "float16" else ["float64"]),
                "values": [round(rng.uniform(-50, 50), rng.choice([1, 2, 3])) for _ in range(rng.randint(1, 6))]}
    cls = rng.choice(["vector", "frame", "frame", "geojson", "lod"])
    settings = {}
    if rng.random() < 0.3: settings["PRINT_FLOAT_PRECISION"] = rng.choice([0, 2, 10])
    if rng.random() < 0.2: settings["PRINT_THOUSAND_SEPARATOR"] = rng.choice([",", " ", "_", "'", ".", "\u2009"])
    if rng.random() < 0.2: settings["PRINT_TRUNCATE_WIDTH"] = rng.choice([1, 5, 100])
    if rng.random() < 0.2: settings["PRINT_MAX_ROWS"] = rng.choice([1, 3, math.inf])
    if rng.random() < 0.15: settings["PRINT_MAX_WIDTH"] = rng.choice([1, 20, 200])
    if rng.random() < 0.2: settings["PRINT_MAX_ELEMENTS"] = rng.choice([0, 2, 5])
    if rng.random() < 0.2: settings["PRINT_MAX_ITEMS"] = rng.choice([0, 1, 2])
    case = {"cls": cls, "settings": settings, "columns_env": rng.choice([None, None, "20", "40", "200"])}
    if cls == "vector":
        kind = rng.choice(KINDS)
        n = rng.choice([0, 1, 3, 10, 40, 150])
        case.update(kind=kind, values=_values(rng, kind, n), opts={"max_elements": rng.choice([None, None, 0, 1, 5, 1000])})
    elif cls in ("frame", "geojson"):
        nrow = rng.choice([0, 1, 2, 5, 12, 120])
        ncol = rng.choice([0, 1, 2, 4, 8]) if cls == "frame" else rng.choice([0, 1, 3])
        names = rng.sample(["a", "b", "c", "value", "long_column_name_here", "日本", "ｗｉｄｅ", "x y", "é", "k1", "k2", "n", "\u2764\ufe0f", "", "two\nlines", "brk\n"], ncol)
        spec = [(nm, k, _values(rng, k, nrow)) for nm, k in ((nm, rng.choice(KINDS)) for nm in names)]
        case["spec"] = spec
        opts = {}
        if rng.random() < 0.5: opts["max_rows"] = rng.choice([1, 2, 3, 10, 200, math.inf])
        if rng.random() < 0.5: opts["max_width"] = rng.choice([1, 3, 5, 10, 30, 60, 300, math.inf])      # inf: the "no limit" idiom
        if rng.random() < 0.4: opts["truncate_width"] = rng.choice([1, 2, 8, 50])
        case["opts"] = opts
        case["grouped"] = rng.random() < 0.2
        if cls == "geojson":
            geoms = [rng.choice([{"type": "Point", "coordinates": [1, 2]}, {"type": "Polygon", "coordinates": [[[0, 0], [1, 1], [0, 1], [0, 0]]]}, None,
                                 {"type": "MultiLineString", "coordinates": []}]) for _ in range(nrow)]
            case["geoms"] = geoms
            case["with_geometry"] = rng.random() < 0.85
    else:
        n = rng.choice([0, 1, 3, 15])
        items = []
        for i in range(n):
            it = {"id": i, "s": rng.choice(gen.STR_SHORT + WIDE + MULTI)}
            if rng.random() < 0.5: it["v"] = rng.choice([None, 1.5, float("nan"), float("inf"), [1, {"a": None}], {"d": "x"}, True])
            if rng.random() < 0.2: it["o"] = rng.choice(["date", "set", "bytes"])
            items.append(it)
        case.update(items=items, opts={"max_items": rng.choice([None, None, 0, 1, 5])})
    return case

def _ulen(s):
    return wcwidth.wcswidth(s)

def _parse_frame(res, text, names, labels, nrow, max_rows, ctx):
    """Parse the documented layout; returns nothing, records violations."""
    # Lines of the rendering are the lines Python itself sees (str.splitlines): the library cuts multi-line cells at
    # their first such boundary, so on a faithful rendering this equals text.split("\n").
    lines = text.splitlines()
    if text.endswith("\n"):
        lines.append("")
    if not names:
        if text != "":
            res.violate("frame:zero-column-not-empty", f"0-column frame rendered as {text!r}")
        return
    n = min(nrow, max_rows)
    total = None
    if lines and lines[-1].startswith("... ") and lines[-1].endswith(" rows total"):
        total = lines.pop()
    if not lines or lines[0] != "." or lines[-1] != ".":
        res.violate("frame:layout-dots-missing", f"first/last lines {lines[:1]} {lines[-1:]}; {ctx}")
        return
    body = lines[1:-1]
    blocks, cur = [], []
    for ln in body:
        if ln == "":
            blocks.append(cur); cur = []
        else:
            cur.append(ln)
    blocks.append(cur)
    res.count("layout-parsed")
    if len(blocks) > 1: res.cls("multi-block")
    if max_rows < nrow:
        res.cls("rows-cut")
        if total is None or total != f"... {nrow} rows total":
            res.violate("frame:total-row-count-not-stated", f"{nrow} rows cut to {max_rows} but last line is {lines[-1]!r} / total {total!r}; {ctx}")
    elif total is not None:
        res.violate("frame:total-line-without-cut", f"{total!r} although nothing was cut; {ctx}")
    headers = []
    for b in blocks:
        if len(b) != n + 3:
            res.violate("frame:wrong-number-of-data-rows", f"block has {len(b) - 3} data rows, expected min(nrow={nrow}, max_rows={max_rows}) = {n}; {ctx}; text {text[:600]!r}")
            return
        widths = [_ulen(x) for x in b]
        if any(w < 0 for w in widths):
            res.skip("equal-width: undefined wcwidth")
        elif len(set(widths)) != 1:
            res.violate("frame:lines-of-unequal-display-width", f"display widths {widths} in block {b[:4]!r}; {ctx}")
            return
        headers.append((b[0], b[1]))
    # every column name and its dtype label, in column order across blocks
    pos_block, pos_char = 0, 0
    lab_char = 0
    for nm, lab in zip(names, labels):
        found = False
        if nm and nm.splitlines() != [nm]:
            nm = (nm.splitlines() or [""])[0] + "…"     # a multi-line name is shown by its first line and an ellipsis, like a multi-line cell
        while pos_block < len(headers):
            h = headers[pos_block][0]
            if nm == "":
                # an unnamed column shows as a blank header cell: it is located by its dtype label instead (next occurrence in this or a later block)
                j = headers[pos_block][1].find(lab, lab_char)
                if j >= 0:
                    found = True
                    lab_char = j + len(lab)
                    break
                pos_block += 1
                pos_char = lab_char = 0
                continue
            i = h.find(nm, pos_char)
            if i >= 0:
                found = True
                pos_char = i + len(nm)
                if lab not in headers[pos_block][1]:
                    res.violate("frame:dtype-label-missing", f"label {lab!r} of column {nm!r} not in {headers[pos_block][1]!r}; {ctx}")
                    return
                break
            pos_block += 1
            pos_char = lab_char = 0
        if not found:
            res.violate("frame:column-name-missing", f"column {nm!r} not found in header lines {[h for h, _ in headers]}; {ctx}")
            return

def execute(case):
    import dataiter as di
    cls, settings = case["cls"], case["settings"]
    res = Result()
    res.cls(f"cls:{cls}")
    old = {k: getattr(di, k) for k in settings}
    old_env = os.environ.get("COLUMNS")
    for k, v in settings.items(): setattr(di, k, v)
    if case["columns_env"] is None: os.environ.pop("COLUMNS", None)
    else: os.environ["COLUMNS"] = case["columns_env"]
    try:
        _run(di, case, res)
    finally:
        for k, v in old.items(): setattr(di, k, v)
        if old_env is None: os.environ.pop("COLUMNS", None)
        else: os.environ["COLUMNS"] = old_env
    return res.dict()

def _try(res, what, feat, f, ctx):
    try:
        return True, f()
    except Exception as e:
        res.violate(f"{what}:raised:{exc_name(e)}:{feat}", f"{what} raised {e!r}; {ctx}")
        return False, None

def _fresh_twin(di, case, res):
    import subprocess, json
    narrow, wide, vals = case["narrow"], case["wide"], case["values"]
    res.sig = f"fresh-process-twin|{narrow}|{wide}|{len(vals)}"
    res.nontrivial = True
    a = np.array(vals, dtype=narrow)
    here_narrow = di.Vector(a).to_string()
    here_wide = di.Vector(a.astype(wide)).to_string()
    env = dict(os.environ)
    env.pop("COLUMNS", None)
    try:
        r = subprocess.run([sys.executable, "-c", FRESH_CHILD, json.dumps(vals), narrow, wide], capture_output=True, text=True, timeout=300, env=env)
    except subprocess.TimeoutExpired:
        res.skip("fresh process timed out")
        return
    if r.returncode != 0:
        res.violate("fresh-process:raised", f"rendering {vals} as {narrow}->{wide} in a fresh process failed: {r.stderr[-300:]}")
        return
    if r.stdout != here_wide:
        res.violate("rendering-depends-on-what-was-rendered-before", f"Vector(np.array({vals}, {narrow}).astype({wide})) renders as {r.stdout!r} in a fresh process but as {here_wide!r} here, "
                    f"after the {narrow} vector {here_narrow!r} was rendered")
    res.count("fresh-process-renderings-compared")

def _run(di, case, res):
    if case["cls"] == "fresh-process-twin":
        return _fresh_twin(di, case, res)
    cls, settings = case["cls"], case["settings"]
    opts = {k: v for k, v in case.get("opts", {}).items() if v is not None}
    if cls == "vector":
        kind, vals = case["kind"], case["values"]
        n = len(vals)
        res.sig = f"vector|{kind}|n{min(n, 3)}|{sorted(opts.items())}|{sorted(settings)}"
        res.nontrivial = n >= 1
        vec = di.Vector(gen.np_column(kind, vals))
        snap = programs._vec_snapshot(vec)
        ctx = f"Vector {kind} {canon.short(vals, 300)} opts {opts} settings {settings} COLUMNS={case['columns_env']}"
        if any(isinstance(v, str) and any(_ulen(ch) != 1 for ch in v) for v in vals): res.cls("wide-chars")
        ok, s = _try(res, "Vector.to_string", kind, lambda: vec.to_string(**opts), ctx)
        ok2, s2 = _try(res, "Vector.__str__", kind, lambda: (str(vec), repr(vec)), ctx)
        if ok and not isinstance(s, str):
            res.violate("Vector.to_string:not-a-string", f"{type(s)}")
        if ok and ok2 and not opts and s2[0] != s:
            res.violate("Vector.__str__:differs-from-to_string", ctx)
        if programs._vec_snapshot(vec) != snap:
            res.violate("Vector.to_string:mutated-object", ctx)
        res.count("renderings")
        return
    if cls in ("frame", "geojson"):
        spec = case["spec"]
        nrow = len(spec[0][2]) if spec else (len(case.get("geoms", [])) if cls == "geojson" else 0)
        if cls == "geojson":
            cols = {nm: gen.np_column(k, v) for nm, k, v in spec}
            if case["with_geometry"]:
                g = np.empty(len(case["geoms"]), dtype=object)
                for i, x in enumerate(case["geoms"]): g[i] = x
                if spec or len(g):
                    cols["geometry"] = g
                if any(x is None for x in case["geoms"]): res.cls("geojson:null-geometry")
            df = di.GeoJSON(cols)
            nrow = canon.frame_nrow(df)
        else:
            df = gen.build_frame(spec)
        names = list(dict.keys(df))
        if case.get("grouped") and names and names[0] != "geometry":
            df.group_by(names[0])        # group_by marks and returns the receiver; a grouped frame must render like any other
            res.cls("grouped-frame")
        if nrow == 0 and names: res.cls("zero-row-frame")
        res.sig = f"{cls}|{gen.spec_sig(spec)}|n{gen.nrow_class(nrow)}|{sorted(opts.items())}|{sorted(settings)}|{case['columns_env']}"
        res.nontrivial = nrow >= 1 and bool(names)
        snap = programs.Monitors.snapshot(df)
        ctx = f"{cls} spec {canon.short(spec, 500)} opts {opts} settings {settings} COLUMNS={case['columns_env']}"
        if any(any(_ulen(ch) != 1 for ch in nm) for nm in names) or any(isinstance(v, str) and any(_ulen(ch) != 1 for ch in v) for _, _, vs in spec for v in vs):
            res.cls("wide-chars")
        feat = ("null-geometry" if cls == "geojson" and case["with_geometry"] and any(x is None for x in case["geoms"]) else "plain")
        if case.get("grouped") and names and names[0] != "geometry": feat += "+grouped"
        call_opts = dict(opts)
        ok, s = _try(res, f"{cls}.to_string", feat, lambda: df.to_string(**call_opts), ctx)
        ok2, s2 = _try(res, f"{cls}.__str__", feat, lambda: (str(df), repr(df)), ctx)
        with capture_stdout() as buf:
            ok3, _ = _try(res, f"{cls}.print_", feat, lambda: df.print_(**call_opts), ctx)
        if ok and ok3:
            res.count("print_-compared")
            if buf.getvalue() != s + "\n":
                res.violate(f"{cls}.print_:differs-from-to_string", f"print_ wrote {buf.getvalue()[:300]!r} but to_string gives {s[:300]!r}; {ctx}")
        if programs.Monitors.snapshot(df) != snap:
            res.violate(f"{cls}.to_string:mutated-object", ctx)
        if ok:
            labels = [str(v.dtype_label) for v in dict.values(df)]      # the library's own public label of each column
            max_rows = opts.get("max_rows") or settings.get("PRINT_MAX_ROWS") or di.PRINT_MAX_ROWS
            _parse_frame(res, s, names, labels, nrow, max_rows, ctx)
        res.count("renderings")
        return
    items, n = case["items"], len(case["items"])
    import datetime
    real = []
    for it in items:
        it = dict(it)
        if "o" in it:
            it["o"] = {"date": datetime.date(2020, 1, 1), "set": {1}, "bytes": b"xy"}[it["o"]]
        real.append(it)
    with capture_stdout():
        data = di.ListOfDicts(real)
    res.sig = f"lod|n{min(n, 3)}|{sorted(opts.items())}|{sorted(settings)}"
    res.nontrivial = n >= 1
    snap = repr([dict(x) for x in list.__iter__(data)])
    flags = (object.__getattribute__(data, "_obsolete"), object.__getattribute__(data, "_obsolete_warned"))
    ctx = f"ListOfDicts {canon.short(items, 400)} opts {opts} settings {settings}"
    with capture_stdout() as buf0:
        ok, s = _try(res, "ListOfDicts.to_string", "plain", lambda: data.to_string(**opts), ctx)
        ok2, s2 = _try(res, "ListOfDicts.__str__", "plain", lambda: (str(data), repr(data)), ctx)
    with capture_stdout() as buf:
        ok3, _ = _try(res, "ListOfDicts.print_", "plain", lambda: data.print_(**opts), ctx)
    if ok and ok3:
        res.count("print_-compared")
        if buf.getvalue() != s + "\n":
            res.violate("ListOfDicts.print_:differs-from-to_string", ctx)
    if ok:
        mi = opts.get("max_items", settings.get("PRINT_MAX_ITEMS", di.PRINT_MAX_ITEMS))
        if mi < n and f"{n} items total" not in s:
            res.violate("ListOfDicts.to_string:total-not-stated", f"{n} items cut to {mi} but no total in {s[-80:]!r}")
    if repr([dict(x) for x in list.__iter__(data)]) != snap or flags != (object.__getattribute__(data, "_obsolete"), object.__getattribute__(data, "_obsolete_warned")):
        res.violate("ListOfDicts.to_string:mutated-object", ctx)
    res.count("renderings")
