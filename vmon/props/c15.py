# -*- coding: utf-8 -*-
"""
C15 - ListOfDicts transformations match plain list-of-dict semantics.

Oracle: the literal Python operation on a parallel plain list of plain dicts
(list.insert, slicing, a stable comparator sort with None last, dict
comprehensions ...). Every item carries a unique `_tag_`, so the result's item
sequence is unambiguous. Chains of 1-6 calls are applied to both worlds and
compared after every call.
"""

import copy
import functools

from vmon import canon
from vmon.res import Result, exc_name, capture_stdout

ID = "C15"
LEVEL = "exploration"
CASES = {"quick": 8000, "thorough": 480000}
RULE = ("seeded random lists of 0-12 dicts (unique tag per item, ragged keys, None values, duplicate key values) x chains of 1-6 calls "
        "drawn from filter/filter_out (predicate and 1-2 key=value pairs), sort (1-3 keys x directions with None and ties), unique, select, "
        "unselect, rename, modify, modify_if, fill_missing_keys (with and without arguments), append, extend, insert (index 0, mid, len, "
        "len+3, -1, -len), +, * (0,1,3,-1), reverse, head/tail (0,1,len-1,len,len+2), slicing with steps; non-trivial = list has >= 2 items; "
        "distinct = distinct call-name sequences x length class")
ASSUMPTIONS = [
    "sort / key=value filter / unique keys are drawn from keys present in every item with mutually comparable values (KeyError / TypeError otherwise in both worlds)",
    "each editing call runs on a deepcopy so that the shared-dict discipline (C17) does not interfere",
    "dict key order inside an item is not compared",
    "rename onto a key that already exists in some item (a collision) is not judged",
]
REACH = {"quick": {"op:tail": 300, "op:insert": 300, "op:sort": 400, "op:unique": 300, "op:filter": 500, "op:mul": 200, "op:slice": 300, "chain>=3": 2000,
                   "tail:n=0": 25, "insert:at-or-past-end": 60, "insert:negative": 60, "sort:none-present": 150, "len:0": 200}}

OPS = ["modify_dep", "modify_if2", "modify2", "fill_after_inplace_key", "filter_pred", "filter_kv", "filter_out_pred", "filter_out_kv", "sort", "unique", "select", "unselect", "rename", "modify", "modify_if",
       "fill_missing_keys", "fill_missing_keys_all", "append", "extend", "insert", "add", "mul", "reverse", "head", "tail", "slice", "copy", "drop_na", "extend_self", "add_self", "rmul", "setitem", "iadd", "imul", "setslice", "append_own", "insert_own"]

def gen_items(rng, n, start=0):
    items = []
    for i in range(n):
        it = {"_tag_": start + i, "a": rng.choice([1, 2, 3, None, -1, -2]), "b": rng.choice(["x", "y", None, "z"])}
        if rng.random() < 0.7: it["c"] = rng.choice([0.5, 1.5, None])
        if rng.random() < 0.5: it["d"] = rng.choice([[1, 2], {"k": 1}, "s", None])
        items.append(it)
    return items

def generate(rng, tier):
    n = rng.choice([0, 1, 2, 3, 5, 8, 12])
    if rng.random() < 0.004:
        n = rng.choice([130, 1100])
    items = gen_items(rng, n)
    chain = []
    for _ in range(rng.choice([1, 1, 2, 3, 4, 6])):
        op = rng.choice(OPS)
        arg = None
        if op in ("filter_pred", "filter_out_pred"): arg = rng.choice(["a_is_1", "b_none", "tag_even", "has_c"])
        elif op in ("filter_kv", "filter_out_kv"):
            arg = rng.choice([{"a": rng.choice([1, 2, None])}, {"b": rng.choice(["x", None])}, {"a": rng.choice([1, 3]), "b": rng.choice(["x", "y"])}])
        elif op == "sort":
            keys = rng.sample(["a", "b", "_tag_"], rng.randint(1, 3))
            arg = [(k, rng.choice([1, -1])) for k in keys]
        elif op == "unique": arg = rng.choice([["a"], ["b"], ["a", "b"], [], ["_tag_"]])
        elif op in ("select", "unselect"): arg = rng.sample(["_tag_", "a", "b", "c", "d", "zz"], rng.choice([1, 2, 3, 3, 5, 6]))
        elif op == "rename": arg = rng.choice([[("aa", "a")], [("bb", "b"), ("cc", "c")], [("q", "d")], [("nn", "missing")],
                                               [("a", "b"), ("b", "a")], [("b", "a"), ("c2", "b")], [("b", "a"), ("a", "b")], [("c", "a"), ("a", "b"), ("b", "c")]])
        elif op in ("modify", "modify_if"): arg = rng.choice(["double_tag", "set_flag"])
        elif op == "fill_missing_keys": arg = rng.choice([{"c": 0}, {"d": "fill", "e": None}])
        elif op == "append": arg = {"_tag_": 1000 + rng.randint(0, 99), "a": 9}
        elif op == "extend": arg = gen_items(rng, rng.randint(0, 3), start=2000 + rng.randint(0, 50) * 10)
        elif op == "insert": arg = (rng.choice(["0", "mid", "len", "len+3", "-1", "-len", "1", "-len-2"]), {"_tag_": 3000 + rng.randint(0, 99), "a": 7})
        elif op == "add": arg = gen_items(rng, rng.randint(0, 3), start=4000 + rng.randint(0, 50) * 10)
        elif op == "mul": arg = rng.choice([0, 1, 3, -1, 2])
        elif op == "rmul": arg = rng.choice([0, 1, 2, 3])
        elif op == "setitem": arg = (rng.choice(["0", "-1", "mid"]), {"_tag_": 5000 + rng.randint(0, 99), "a": rng.choice([1, 2, None]), "b": "x"})
        elif op == "iadd": arg = (rng.choice(["list", "tuple", "gen", "lod", "self"]), gen_items(rng, rng.randint(0, 3), start=6000 + rng.randint(0, 50) * 10))
        elif op == "imul": arg = rng.choice([0, 1, 2, 3])
        elif op == "setslice": arg = (rng.choice([(None, 1, None), (1, None, None), (0, 0, None), (-1, None, None), (None, None, None), (1, 3, None)]),
                                      rng.choice(["list", "gen", "lod"]), gen_items(rng, rng.randint(0, 3), start=7000 + rng.randint(0, 50) * 10))
        elif op in ("head", "tail"): arg = rng.choice(["0", "1", "len-1", "len", "len+2", "none", "2"])
        elif op == "slice": arg = rng.choice([(None, 2, None), (1, None, None), (None, None, 2), (None, None, -1), (-2, None, None), (1, -1, 1), (0, 0, None), (5, 1, -2)])
        elif op == "drop_na": arg = rng.choice([["a"], ["b", "c"], []])
        chain.append((op, arg))
    return {"items": items, "chain": chain}

PREDS = {"a_is_1": lambda x: x.get("a") == 1, "b_none": lambda x: x.get("b") is None,
         "tag_even": lambda x: isinstance(x.get("_tag_"), int) and x["_tag_"] % 2 == 0, "has_c": lambda x: "c" in x}
MODS = {"double_tag": ("t2", lambda x: (x.get("_tag_") if isinstance(x.get("_tag_"), int) else 0) * 2), "set_flag": ("a", lambda x: -1)}

def _cmp_key(k, dir):
    def cmp(x, y):
        a, b = x[k], y[k]
        if a is None and b is None: return 0
        if a is None: return 1
        if b is None: return -1
        c = (a > b) - (a < b)
        return c if dir > 0 else -c
    return cmp

def model(L, op, arg):
    n = len(L)
    if op == "filter_pred": return [x for x in L if PREDS[arg](x)]
    if op == "filter_out_pred": return [x for x in L if not PREDS[arg](x)]
    if op == "filter_kv": return [x for x in L if all(x[k] == v for k, v in arg.items())]
    if op == "filter_out_kv": return [x for x in L if not all(x[k] == v for k, v in arg.items())]
    if op == "sort":
        out = list(L)
        for k, d in reversed(arg):
            out = sorted(out, key=functools.cmp_to_key(_cmp_key(k, d)))
        return out
    if op == "unique":
        keys = arg
        if not keys:
            if not L: return []
            common = set(L[0])
            for x in L: common &= set(x)
            keys = sorted(common)
        seen, out = [], []
        for x in L:
            kid = [x[k] for k in keys]
            if kid not in seen:
                seen.append(kid)
                out.append(x)
        return out
    if op == "select": return [{k: x[k] for k in arg if k in x} for x in L]
    if op == "unselect": return [{k: v for k, v in x.items() if k not in arg} for x in L]
    if op == "rename":
        m = {old: new for new, old in arg}
        return [{m.get(k, k): v for k, v in x.items()} for x in L]
    if op == "modify":
        k, f = MODS[arg]
        return [dict(x, **{k: f(x)}) for x in L]
    if op == "modify_if":
        k, f = MODS[arg]
        return [dict(x, **{k: f(x)}) if PREDS["tag_even"](x) else x for x in L]
    if op == "fill_after_inplace_key":
        if not L: return []
        L = [dict(x) for x in L]
        L[-1]["zz_new"] = 1
        allk = []
        for x in L:
            for k in x:
                if k not in allk: allk.append(k)
        return [dict({k: None for k in allk if k not in x}, **x) for x in L]
    if op == "modify_if2":
        return [dict(x, a=-1, flag=True) if x.get("a") == 1 else x for x in L]
    if op == "modify_dep":
        # plain loop semantics: the keys are assigned one after another, so a later function sees what an earlier one stored
        return [dict(x, a=(x.get("a") or 0) * 2, a3=(x.get("a") or 0) * 2 + 1) for x in L]
    if op == "modify2":
        return [dict(x, a=-2, a2=(x.get("_tag_") if isinstance(x.get("_tag_"), int) else 0) * 10) for x in L]
    if op == "fill_missing_keys": return [dict({k: v for k, v in arg.items() if k not in x}, **x) for x in L]
    if op == "fill_missing_keys_all":
        allk = []
        for x in L:
            for k in x:
                if k not in allk: allk.append(k)
        return [dict({k: None for k in allk if k not in x}, **x) for x in L]
    if op == "append": return L + [arg]
    if op in ("extend", "add"): return L + list(arg)
    if op in ("extend_self", "add_self"): return L + L        # the list itself as the argument
    if op == "insert":
        pos, item = arg
        i = {"0": 0, "mid": n // 2, "len": n, "len+3": n + 3, "-1": -1, "-len": -n, "1": 1, "-len-2": -n - 2}[pos]
        out = list(L)
        out.insert(i, item)
        return out
    if op == "mul": return L * arg
    if op == "rmul": return arg * L
    if op == "setitem":
        out = list(L)
        out[{"0": 0, "-1": -1, "mid": n // 2}[arg[0]]] = arg[1]
        return out
    if op == "append_own": return L + [L[0]]
    if op == "insert_own": return [L[-1]] + L
    if op == "iadd": return L + (L if arg[0] == "self" else list(arg[1]))
    if op == "imul": return L * arg
    if op == "setslice":
        out = list(L)
        out[slice(*arg[0])] = list(arg[2])
        return out
    if op == "reverse": return L[::-1]
    if op in ("head", "tail"):
        k = {"0": 0, "1": 1, "len-1": max(0, n - 1), "len": n, "len+2": n + 2, "none": 3, "2": 2}[arg]
        k = min(k, n)
        return L[:k] if op == "head" else (L[n - k:] if k else [])
    if op == "slice": return L[slice(*arg)]
    if op == "copy": return list(L)
    if op == "drop_na": return [x for x in L if not any(x.get(k) is None for k in arg)]
    raise ValueError(op)

def apply(di, data, op, arg):
    n = len(data)
    if op == "filter_pred": return data.filter(PREDS[arg])
    if op == "filter_out_pred": return data.filter_out(PREDS[arg])
    if op == "filter_kv": return data.filter(**arg)
    if op == "filter_out_kv": return data.filter_out(**arg)
    if op == "sort": return data.sort(**dict(arg))
    if op == "unique": return data.unique(*arg)
    if op == "select": return data.deepcopy().select(*arg)
    if op == "unselect": return data.deepcopy().unselect(*arg)
    if op == "rename": return data.deepcopy().rename(**{new: old for new, old in arg})
    if op == "modify": return data.deepcopy().modify(**{MODS[arg][0]: MODS[arg][1]})
    if op == "modify_if": return data.deepcopy().modify_if(PREDS["tag_even"], **{MODS[arg][0]: MODS[arg][1]})
    if op == "fill_after_inplace_key":
        d2 = data.deepcopy()
        if not len(d2): return d2.fill_missing_keys()
        list(d2.keys()); d2.fill_missing_keys()          # something looks at the keys first ...
        list.__getitem__(d2, len(d2) - 1)["zz_new"] = 1   # ... a key appears in place on the same list object ...
        return d2.fill_missing_keys()                    # ... and the keys are filled again
    if op == "modify_if2": return data.deepcopy().modify_if(lambda x: x.get("a") == 1, a=lambda x: -1, flag=lambda x: True)
    if op == "modify_dep": return data.deepcopy().modify(a=lambda x: (x.get("a") or 0) * 2, a3=lambda x: x["a"] + 1)
    if op == "modify2": return data.deepcopy().modify(a=lambda x: -2, a2=lambda x: (x.get("_tag_") if isinstance(x.get("_tag_"), int) else 0) * 10)
    if op == "fill_missing_keys": return data.deepcopy().fill_missing_keys(**arg)
    if op == "fill_missing_keys_all": return data.deepcopy().fill_missing_keys()
    if op == "append": return data.append(dict(arg))
    if op == "extend":
        items = [dict(x) for x in arg]
        # any iterable of dicts, as for list.extend: list, tuple, one-shot iterators
        form = len(repr(arg)) % 6
        if form == 5 and items:
            # a sequence that starts with an item carried over from another ListOfDicts (already an attribute dict), followed by plain dicts
            return data.extend([di.ListOfDicts([items[0]])[0]] + items[1:])
        return data.extend(items if form < 2 else (tuple(items) if form == 2 else (iter(items) if form == 3 else (x for x in items))))
    if op == "insert":
        pos, item = arg
        i = {"0": 0, "mid": n // 2, "len": n, "len+3": n + 3, "-1": -1, "-len": -n, "1": 1, "-len-2": -n - 2}[pos]
        return data.insert(i, dict(item))
    if op == "add": return data + di.ListOfDicts([dict(x) for x in arg])
    if op == "mul":
        import numpy as np
        return data * (np.int64(arg) if arg % 2 else arg)        # a count taken from an array is a NumPy integer: a list accepts anything with __index__
    if op == "rmul": return arg * data
    if op == "setitem":
        # item assignment edits the list in place; the new item supports attribute access like the others
        data[{"0": 0, "-1": -1, "mid": n // 2}[arg[0]]] = dict(arg[1])
        return data
    if op in ("iadd", "setslice"):
        # the in-place spellings a list has: the receiver stays the same object and the new items become attribute dicts like the others
        form, items = (arg[0], arg[1]) if op == "iadd" else (arg[1], arg[2])
        items = [dict(x) for x in items]
        val = {"list": items, "tuple": tuple(items), "gen": (x for x in items), "lod": di.ListOfDicts(items), "self": data}[form]
        same = data
        if op == "iadd": data += val
        else: data[slice(*arg[0])] = val
        if data is not same: raise AssertionError(f"{op} is in place for a list; the receiver was replaced")
        return data
    if op == "imul":
        data *= arg
        return data
    if op in ("append_own", "insert_own"):
        # an item of the list itself (already an attribute dict) goes to a second position: as with list.append / list.insert
        # it is that very object that sits at both positions afterwards, so that a later edit of the items shows at both
        item = list.__getitem__(data, 0 if op == "append_own" else -1)
        out = data.append(item) if op == "append_own" else data.insert(0, item)
        a, b = (list.__getitem__(out, 0), list.__getitem__(out, -1))
        if op == "insert_own": a, b = list.__getitem__(out, 0), list.__getitem__(out, -1)
        if a is not b:
            raise AssertionError(f"{op}: the item added is a copy of the attribute dict given, not that object (list.append / list.insert add the object itself)")
        return out
    if op == "extend_self": return data.extend(data)
    if op == "add_self": return data + data
    if op == "reverse": return data.reverse()
    if op in ("head", "tail"):
        if arg == "none": return getattr(data, op)()
        k = {"0": 0, "1": 1, "len-1": max(0, n - 1), "len": n, "len+2": n + 2, "2": 2}[arg]
        return getattr(data, op)(k)
    if op == "slice": return data[slice(*arg)]
    if op == "copy": return data.copy()
    if op == "drop_na": return data.drop_na(*arg)
    raise ValueError(op)

def usable(L, op, arg):
    """Both worlds would raise: skip the step (domain clause)."""
    if op in ("filter_kv", "filter_out_kv"): return all(k in x for x in L for k in arg)
    if op == "sort":
        for k, _ in arg:
            if any(k not in x for x in L): return False
            vals = [x[k] for x in L if x[k] is not None]
            if len({type(v) for v in vals}) > 1: return False
        return True
    if op == "unique": return all(k in x for x in L for k in arg) and all(not isinstance(x.get(k), (list, dict)) for x in L for k in arg)
    if op == "unique" and not arg: return True
    if op == "rename":
        # renaming onto a key that already exists in an item (and is not itself renamed away) is a collision whose winner is unspecified
        olds = {old for _, old in arg}
        return not any(new in x and new not in olds for x in L for new, _ in arg)
    if op == "setitem": return len(L) >= 1
    if op in ("append_own", "insert_own"): return len(L) >= 1
    if op == "modify_dep": return all(x.get("a") is None or (isinstance(x.get("a"), (int, float)) and not isinstance(x.get("a"), bool)) for x in L)
    if op in ("modify", "modify_if"): return all("_tag_" in x for x in L)
    if op in ("filter_pred", "filter_out_pred"): return all(("a" in x and "b" in x and "_tag_" in x) for x in L)
    return True

def execute(case):
    import dataiter as di
    items, chain = case["items"], case["chain"]
    res = Result(sig="|".join(op for op, _ in chain) + f"|n{min(len(items), 3)}", nontrivial=len(items) >= 2)
    if len(chain) >= 3: res.cls("chain>=3")
    res.cls(f"len:{len(items) if len(items) < 3 else '3+'}")
    L = copy.deepcopy(items)
    with capture_stdout():
        data = di.ListOfDicts(copy.deepcopy(items))
    for step, (op, arg) in enumerate(chain):
        if op == "unique" and not arg:
            common = set(L[0]) if L else set()
            for y in L: common &= set(y)
            ok = (not L or bool(common)) and all(not isinstance(v, (list, dict)) for x in L for k, v in x.items() if all(k in y for y in L))
        else:
            ok = usable(L, op, arg)
        if not ok:
            res.skip(f"domain:{op}")
            continue
        name = {"filter_pred": "filter", "filter_kv": "filter", "filter_out_pred": "filter_out", "filter_out_kv": "filter_out",
                "fill_missing_keys_all": "fill_missing_keys", "modify_if2": "modify_if", "modify2": "modify", "modify_dep": "modify", "fill_after_inplace_key": "fill_missing_keys", "extend_self": "extend", "add_self": "add", "iadd": "add", "imul": "mul", "append_own": "append", "insert_own": "insert"}.get(op, op)
        res.cls(f"op:{name}")
        n = len(L)
        feat = "plain"
        if op in ("iadd", "imul"): res.cls(f"op:{op}"); feat = "in-place"
        if op == "tail" and arg == "0": res.cls("tail:n=0"); feat = "n=0"
        if op == "insert":
            if arg[0] in ("len", "len+3"): res.cls("insert:at-or-past-end"); feat = "at-or-past-end"
            elif arg[0] in ("-1", "-len", "-len-2"): res.cls("insert:negative"); feat = "negative-index"
        if op == "sort" and any(x[k] is None for x in L for k, _ in arg): res.cls("sort:none-present")
        exp = model(copy.deepcopy(L), op, copy.deepcopy(arg))
        try:
            with capture_stdout():
                out = apply(di, data, op, copy.deepcopy(arg))
        except Exception as e:
            res.violate(f"{name}:raised:{exc_name(e)}:{feat}", f"step {step} {op}({arg!r}) raised {e!r} on {canon.short(L, 600)}; chain {chain}")
            return res.dict()
        if not isinstance(out, di.ListOfDicts):
            res.violate(f"{name}:not-a-ListOfDicts", f"step {step} {op} returned {type(out)}")
            return res.dict()
        if op in ("add", "add_self", "mul", "rmul", "copy", "extend", "extend_self") and out is data:
            # list + list, list * n and list.copy() make a new list even when an operand is empty or n is 1: the operand is not the result,
            # so that growing the result in place (+=, slice assignment) leaves the operand alone
            res.violate(f"{name}:returned-its-operand", f"step {step} {op}({arg!r}) returned the very list it was applied to; chain {chain}")
            return res.dict()
        got = [dict(x) for x in list.__iter__(out)]
        if got == exp and op == "select" and [list(g) for g in got] != [list(e) for e in exp]:
            res.violate("select:keys-not-in-requested-order", f"step {step} select({arg!r}): key order {[list(g) for g in got][:3]} expected {[list(e) for e in exp][:3]}")
            return res.dict()
        if got != exp:
            tags_g = [x.get("_tag_") for x in got]
            tags_e = [x.get("_tag_") for x in exp]
            what = "wrong-item-sequence" if tags_g != tags_e else "wrong-item-content"
            res.violate(f"{name}:{what}:{feat}", f"step {step} {op}({arg!r}) on {canon.short(L, 500)}: tags {tags_g} expected {tags_e}; got {canon.short(got, 500)} expected {canon.short(exp, 500)}")
            return res.dict()
        from attd import AttributeDict
        for x in list.__iter__(out):
            if not isinstance(x, AttributeDict):
                res.violate(f"{name}:item-not-attribute-dict", f"step {step} {op}: item of type {type(x)}")
                return res.dict()
        if got and "_tag_" in got[0] and list.__getitem__(out, 0)._tag_ != got[0]["_tag_"]:
            res.violate(f"{name}:attribute-access-broken", f"step {step} {op}")
        res.count("calls-compared")
        L = exp
        data = out
    return res.dict()
