# -*- coding: utf-8 -*-
"""
C07 - aggregation helpers compute the documented statistic and NA policy.

Oracle: vmon.models.stat (exact-arithmetic textbook statistics over canonical
cells) for every group, compared with (a) the vector form di.f(Vector, ...)
applied to the group's elements and (b) the group-wise column of
data.group_by("g").aggregate(y=di.f("x", ...)). USE_NUMBA is off: the pure
Python implementation is the one anchored here; Numba agreement is C08.
"""

import math

from vmon import canon, gen, models
from vmon.res import Result, exc_name

ID = "C07"
LEVEL = "exploration"
CASES = {"quick": 12000, "thorough": 1200000}
RULE = ("seeded random (helper, arguments, dtype, group layout) cases: every helper x each dtype it accepts x drop_na in {default,True,False} "
        "x ddof in {0,1,2} x index in {0,1,-1,-2,5,-6} x q in {0,.1,.25,.5,.9,1}; 1-4 groups of 1-6 elements in interleaved row order incl. "
        "single-element and all-missing groups, plus empty vectors in the vector form; non-trivial = a group with >= 2 elements or a "
        "default-yielding group; distinct = distinct (helper, args, dtype, NA presence, default-yielding?) signatures")
ASSUMPTIONS = [
    "reference statistics use exact rational arithmetic; float results are compared with rel 1e-9 / abs 1e-9*max|x| (var: *max|x|^2)",
    "not judged (statement does not fix them): count_unique/mode with missing values kept, ddof >= n, +-inf inside quantile/std/var (sum, mean and median with infinities follow IEEE arithmetic and are judged), min/max of dates or strings with missing values kept",
    "all/any: a missing float (NaN) is truthy (NumPy truthiness, which the helper documents it uses); all/any over a string group containing missing values is not judged",
]
REACH = {"quick": {"default-yielding-group": 300, "form:vector": 5000, "form:groupwise": 5000, "kind:str": 300, "kind:date": 300, "vector-empty": 50}}

ACCEPT = {
    "all": ["bool", "int", "float", "str"], "any": ["bool", "int", "float", "str"],
    "count": ["bool", "int", "float", "str", "date", "datetime", "timedelta", "datetime_ns"], "count_unique": ["bool", "int", "float", "str", "date", "datetime", "timedelta", "datetime_ns"],
    "first": ["bool", "int", "float", "str", "date", "datetime", "timedelta", "datetime_ns"], "last": ["bool", "int", "float", "str", "date", "datetime", "timedelta", "datetime_ns"],
    "nth": ["bool", "int", "float", "str", "date", "datetime", "timedelta", "datetime_ns"], "mode": ["bool", "int", "float", "str", "date", "datetime", "timedelta", "datetime_ns"],
    "min": ["bool", "int", "float", "date", "datetime", "str", "timedelta", "datetime_ns"], "max": ["bool", "int", "float", "date", "datetime", "str", "timedelta", "datetime_ns"],
    "mean": ["bool", "int", "float", "int8"], "median": ["bool", "int", "float", "int8"], "quantile": ["bool", "int", "float", "int8", "int8"],
    "std": ["bool", "int", "float", "int8"], "var": ["bool", "int", "float", "int8"], "sum": ["bool", "int", "float", "int8"],
}
HELPERS = sorted(ACCEPT)
FLOATS = gen.FLOAT_SMALL + [0.1 + 0.2, 1 / 3, 123456.789, 1e-7, 2.0**53, -(2.0**53 + 2)]
INTS = gen.INT_SMALL + [2**53, 2**53 + 1, -(2**53 + 1)]

def generate(rng, tier):
    helper = rng.choice(HELPERS)
    kind = rng.choice(ACCEPT[helper])
    kw = {}
    if models.DROP_NA_DEFAULT[helper] is not None and rng.random() < 0.6:
        kw["drop_na"] = rng.choice([True, False])
    if helper in ("std", "var") and rng.random() < 0.6:
        kw["ddof"] = rng.choice([0, 1, 1, 2])
    if helper == "nth":
        kw["index"] = rng.choice([0, 1, -1, -2, 5, -6])
    if helper == "quantile":
        kw["q"] = rng.choice([0, 0.1, 0.25, 0.5, 0.9, 1])
    if kind == "float":
        p = list(FLOATS)
        if helper in ("min", "max", "first", "last", "nth", "count", "count_unique", "mode", "sum", "mean", "median") and rng.random() < 0.3:
            p += [math.inf, -math.inf]
    elif kind == "int8":
        p = [-128, 127, -100, 100, 5, 0, 50, -1]         # a narrow integer type: differences and sums of two values do not fit the type itself
    elif kind == "int":
        p = list(INTS)
    else:
        p = gen.pool(rng, kind, 0.2)
    ngroups = rng.choice([1, 2, 3, 4])
    groups = []
    for g in range(ngroups):
        size = rng.choice([1, 1, 2, 3, 4, 6])
        sub = rng.sample(p, min(len(p), rng.randint(1, 4)))
        vals = [rng.choice(sub) for _ in range(size)]
        if kind in gen.NA_CAPABLE:
            r = rng.random()
            if r < 0.2:
                vals = [None] * size
            elif r < 0.6:
                vals = [None if rng.random() < 0.35 else v for v in vals]
        groups.append(vals)
    if kind == "float" and helper in ("min", "max", "sum", "first", "last") and rng.random() < 0.2:
        # a group holding nothing but one infinity (the identity of the opposite reduction), missing values in it or elsewhere:
        # the case in which "replace missing by the identity, then reduce" differs from "remove missing, then reduce"
        e = rng.choice([math.inf, -math.inf])
        groups[0] = [e] * rng.choice([1, 2, 3]) + ([None] if rng.random() < 0.5 else [])
        rng.shuffle(groups[0])
        if len(groups) > 1 and rng.random() < 0.7:
            groups[-1] = groups[-1] + [None]
    if helper == "mode" and kind in ("int", "float") and rng.random() < 0.05:
        # a long group (size-dependent code paths) with a tie whose first-encountered value is not the smallest
        groups = [[7, 3] * 600 + [5] if kind == "int" else [7.5, 3.5] * 600 + [5.5]] + groups[:1]
        ngroups = len(groups)
    gids = rng.sample([-2, 0, 1, 3, 7, 10], ngroups)
    order = [(gi, j) for gi, vals in enumerate(groups) for j in range(len(vals))]
    # interleave rows of different groups while preserving within-group order
    rows = []
    ptr = [0] * ngroups
    remaining = sum(len(v) for v in groups)
    while remaining:
        gi = rng.choice([g for g in range(ngroups) if ptr[g] < len(groups[g])])
        rows.append((gids[gi], groups[gi][ptr[gi]]))
        ptr[gi] += 1
        remaining -= 1
    return {"helper": helper, "kw": kw, "kind": kind, "rows": rows, "vector_empty": rng.random() < 0.04}

_HELPER_OBJECTS = {}

def _shorthand(di, helper, args, kws):
    """Shorthand helper objects are reused across cases (frames of other dtypes) within a worker, as a user's dict of summaries would be."""
    key = (helper, repr(args), repr(sorted(kws.items())))
    if key not in _HELPER_OBJECTS:
        _HELPER_OBJECTS[key] = getattr(di, helper)("x", *args, **kws)
    return _HELPER_OBJECTS[key]

def _call_args(helper, kw):
    kws = dict(kw)
    args = []
    if helper == "nth": args.append(kws.pop("index"))
    if helper == "quantile": args.append(kws.pop("q"))
    return args, kws

def execute(case):
    import dataiter as di
    import numpy as np
    di.USE_NUMBA = False
    helper, kw, kind, rows = case["helper"], case["kw"], case["kind"], case["rows"]
    f = getattr(di, helper)
    args, kws = _call_args(helper, kw)
    if len(rows) % 4 == 1:
        # numeric arguments as NumPy scalars (an index / quantile / ddof computed from another array), the flag as np.bool_
        args = [np.int64(a) if isinstance(a, int) and not isinstance(a, bool) else (np.float64(a) if isinstance(a, float) else a) for a in args]
        kws = {k: (np.bool_(v) if isinstance(v, bool) else (np.int64(v) if isinstance(v, int) else v)) for k, v in kws.items()}
    byg = {}
    for g, v in rows:
        byg.setdefault(g, []).append(v)
    gorder = sorted(byg)
    string_na = kind == "str"
    cells_of = {g: gen.expected_cells(kind, byg[g]) for g in gorder}
    has_na = any(v is None for _, v in rows)
    mkw = dict(drop_na=kw.get("drop_na"), ddof=kw.get("ddof", 0), index=kw.get("index"), q=kw.get("q"),
               na_truthy={"float": True}.get(kind))
    expected = {g: models.stat(helper, cells_of[g], **mkw) for g in gorder}
    eff_drop = kw.get("drop_na", models.DROP_NA_DEFAULT[helper])
    dflt = any((len([c for c in cells_of[g] if c != canon.NA]) if eff_drop else len(cells_of[g])) < max(1, models.NEEDS[helper]) for g in gorder)
    res = Result(sig=f"{helper}|{sorted(kw.items())}|{kind}|na{int(has_na)}|d{int(dflt)}",
                 nontrivial=dflt or any(len(v) >= 2 for v in byg.values()))
    res.cls(f"helper:{helper}", f"kind:{kind}")
    if dflt: res.cls("default-yielding-group")
    if kw: res.cls("non-default-args")
    allcells = [c for g in gorder for c in cells_of[g]]
    mag = models.magnitude(allcells)
    tol = (1e-9, 1e-9 * (mag * mag if helper == "var" else mag))
    ctx = f"{helper}({kind}, {kw}) rows {canon.short(rows, 900)}"
    def judge(form, g, got, exp):
        if exp == "UNSPECIFIED":
            res.skip(f"unspecified:{helper}")
            return
        if not canon.cell_eq(got, exp, widen=True, tol=tol):
            why = "default" if exp == models.default_for(helper) and dflt else "value"
            res.violate(f"{helper}:{form}:wrong-{why}", f"{form} form group {g} elements {canon.short(byg[g], 300)}: got {got} expected {exp}; {ctx}")
        res.count("results-compared")
    # ---- vector form, per group
    res.cls("form:vector")
    vgroups = list(gorder)
    for g in vgroups:
        vec = di.Vector(gen.np_column(kind, byg[g]))
        pre = canon.col_cells(vec)
        try:
            got = f(vec, *args, **kws)
        except Exception as e:
            res.violate(f"{helper}:vector:raised:{exc_name(e)}:{kind}", f"di.{helper}(Vector) raised {e!r} on {canon.short(byg[g], 300)}; {ctx}")
            break
        if canon.col_cells(vec) != pre:
            res.violate(f"{helper}:vector:mutated-input", ctx)
        judge("vector", g, canon.canon_obj(got, string_na=string_na), expected[g])
    if kind == "datetime_ns" and helper in ("min", "max", "first", "last", "nth"):
        # nanosecond datetimes that differ only below the microsecond: the statistic must still be one of the ELEMENTS
        # (the vector form returns the exact nanosecond count when a datetime.datetime cannot hold the value)
        k0 = len(rows) % 7 * 10
        base = np.datetime64("2024-02-29T06:30:00.000001000", "ns")
        arr = np.array([base + np.timedelta64(k0 + k, "ns") for k in (5, 2, 9)])
        ints = arr.astype("int64").tolist()
        idx = kw.get("index")
        exp = {"min": min(ints), "max": max(ints), "first": ints[0], "last": ints[-1],
               "nth": ints[idx] if idx is not None and -3 <= idx < 3 else None}[helper]
        if exp is not None:
            res.cls("sub-microsecond-probe")
            try:
                got = f(di.Vector(arr), *args, **kws)
                gv = int(got) if isinstance(got, (int, np.integer)) and not isinstance(got, np.timedelta64) else int(np.datetime64(got).astype("datetime64[ns]").astype("int64"))
                if gv != exp:
                    res.violate(f"{helper}:vector:sub-microsecond-value-changed", f"di.{helper}(Vector of datetime64[ns] {arr.tolist()}, {kw}) gave {got!r} = {gv} ns, expected the element {exp} ns")
            except Exception as e:
                res.violate(f"{helper}:vector:raised:{exc_name(e)}:datetime_ns:sub-microsecond", f"di.{helper}(Vector {arr!r}, {kw}) raised {e!r}")
            res.count("results-compared")
    if case.get("vector_empty"):
        res.cls("vector-empty")
        vec = di.Vector(gen.np_column(kind, []))
        try:
            got = canon.canon_obj(f(vec, *args, **kws), string_na=string_na)
            exp = models.stat(helper, [], **mkw)
            if exp != "UNSPECIFIED" and not canon.cell_eq(got, exp, widen=True):
                res.violate(f"{helper}:vector:wrong-default", f"di.{helper}(empty {kind} vector, {kw}) gave {got} expected {exp}")
        except Exception as e:
            res.violate(f"{helper}:vector:raised:{exc_name(e)}:{kind}:empty", f"di.{helper}(empty {kind} Vector, {kw}) raised {e!r}")
    # ---- group-wise form
    res.cls("form:groupwise")
    spec = [("g", "int", [g for g, _ in rows]), ("x", kind, [v for _, v in rows])]
    df = gen.build_frame(spec)
    pre = canon.frame_cells(df)
    trailers = {}
    if case.get("trailers", True) and kind in ("bool", "int", "float", "date", "datetime", "str", "timedelta"):
        # the same aggregate() call goes on with order-sensitive helpers on the same column: one helper must not disturb the next
        trailers = {"z_first": ("first", {}), "z_last": ("last", {}), "z_nth": ("nth", {"index": 1}), "z_mode": ("mode", {}), "z_count": ("count", {})}
    try:
        short = _shorthand(di, helper, args, kws)
        extra = {}
        for name, (h, hkw) in trailers.items():
            a2, k2 = _call_args(h, hkw)
            extra[name] = _shorthand(di, h, a2, k2)
        out = df.group_by("g").aggregate(y=short, **extra)
    except Exception as e:
        res.violate(f"{helper}:groupwise:raised:{exc_name(e)}:{kind}", f"aggregate(y=di.{helper}('x')) raised {e!r}; {ctx}")
        return res.dict()
    oc = canon.frame_cells(out)
    if [c[1] for c in oc.get("g", [])] != gorder or "y" not in oc or len(oc["y"]) != len(gorder):
        res.violate(f"{helper}:groupwise:wrong-groups", f"got {canon.short(oc, 400)} expected groups {gorder}; {ctx}")
        return res.dict()
    if canon.frame_cells(df) != pre:
        res.violate(f"{helper}:groupwise:mutated-input", ctx)
    for g, got in zip(gorder, oc["y"]):
        judge("groupwise", g, got, expected[g])
    for name, (h, hkw) in trailers.items():
        if name not in oc:
            res.violate(f"{helper}:groupwise:trailing-helper-missing", f"column {name} absent; {ctx}")
            break
        for g, got in zip(gorder, oc[name]):
            exp = models.stat(h, cells_of[g], drop_na=hkw.get("drop_na"), index=hkw.get("index"))
            if exp != "UNSPECIFIED" and not canon.cell_eq(got, exp, widen=True, tol=tol):
                res.violate(f"{h}:groupwise:wrong-value-after-{helper}-in-same-call", f"aggregate(y={helper}{kw}, ..., {name}={h}{hkw}): group {g} elements {canon.short(byg[g], 300)}: {name} = {got} expected {exp}; {ctx}")
                break
        res.count("trailing-helpers-compared")
    res.observed = {"groups": len(gorder), "expected": canon.short([expected[g] for g in gorder], 200)}
    return res.dict()
