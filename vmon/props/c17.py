# -*- coding: utf-8 -*-
"""
C17 - ListOfDicts shared-dict discipline: isolation and obsolescence.

The monitor keeps its OWN shadow derivation forest (it never reads
_predecessor / _obsolete): a node per list object, an edge receiver -> result
per call. After an editing call on r, r and all its ancestors up to the
nearest deep copy / root must print the warning exactly once on their next
use; everything else (the returned list, deep copies, siblings, cousins,
unrelated lists) must stay silent. U-ITEMS: a deep content snapshot of every
live item (keyed by identity) is compared around every call: only editing
methods may change items, and only items of their receiver; deep copies must
consist of fresh objects all the way down.
"""

import copy
import os
import random

from vmon import canon
from vmon.res import Result, exc_name, capture_stdout

ID = "C17"
LEVEL = "exploration"
CASES = {"quick": 3000, "thorough": 120000}
RULE = ("seeded random histories of 5-25 ListOfDicts calls building derivation trees from 1-2 root lists: hand-on methods (filter, "
        "filter_out, sort, unique, head, tail, slicing, copy, reverse, sample, semi_join, anti_join, drop_na, append, extend, +, *), editing "
        "methods (modify, modify_if, rename, select, unselect, fill_missing_keys, inner_join, left_join), deepcopy at random points and "
        "'use' steps on random live lists; items hold nested lists/dicts; non-trivial = history with >= 1 editing call and >= 2 branches or a "
        "deepcopy; distinct = distinct method-name sequences")
ASSUMPTIONS = [
    "a 'use' is any method call (attribute access to a callable); operators and slicing reach one through the library's own self._new",
    "lists reached through edges that do not hand on items (aggregate, full_join, map, to_*) and the other operand of +/extend are not part of the histories (don't-care in the statement)",
    "the verdict is on printed behaviour (captured stdout); the monitor reads items through list/dict base-class slots only, so it never consumes a warning itself",
]
REACH = {"quick": {"editing-calls": 3000, "deepcopy-cuts": 1000, "warn-once-second-use-silent": 1000, "branching-histories": 500, "forbidden-silent-checked": 5000,
                   "edit:left_join": 100, "edit:inner_join": 100, "edit:rename": 100, "edit:select": 100, "edit:unselect": 100, "edit:fill_missing_keys": 100,
                   "edit:modify": 100, "edit:modify_if": 100, "edit:fill_missing_keys_noarg": 50}}

WARNING = "Warning: A successor has modified the shared dicts"
HANDON = ["filter", "filter_out", "sort", "unique", "head", "tail", "slice", "copy", "reverse", "sample", "semi_join", "anti_join", "drop_na",
          "append", "extend", "add", "mul", "chain", "chain", "group_by", "probe_aggregate", "probe_write_csv", "probe_to_json", "probe_to_data_frame", "map_dicts"]
EDIT = ["modify", "modify_if", "rename", "select", "unselect", "fill_missing_keys", "fill_missing_keys_noarg", "inner_join", "left_join"]

def generate(rng, tier):
    case = {"hseed": rng.getrandbits(48), "nsteps": rng.randint(5, 25), "nroots": rng.choice([1, 1, 2])}
    if rng.random() < 0.012:
        # a long derivation chain: a list built by appending items one by one in a loop (each append hands on the items of its predecessor)
        case["long_chain"] = rng.choice([1100, 1500, 2500])
        case["nsteps"] = rng.randint(3, 8)
    return case

class Node:
    _trees = [0]
    def __init__(self, lst, parent=None, cut=False, how="root"):
        self.lst = lst
        self.parent = None if cut else parent
        self.obsolete = False
        self.warned = False
        self.how = how
        if parent is None or cut:
            Node._trees[0] += 1
            self.tree = Node._trees[0]      # lists of different trees share no items: an edit in one tree must never show in another
        else:
            self.tree = parent.tree

def _items(lst):
    return list(list.__iter__(lst))

def _content(item):
    return copy.deepcopy(dict(item))

def execute(case):
    import dataiter as di
    rng = random.Random(case["hseed"])
    random.seed(case["hseed"] % 99991)
    res = Result()
    nodes = []
    trace = []
    counter = [0]
    def fresh_items(n, base):
        out = []
        for i in range(n):
            counter[0] += 1
            out.append({"_tag_": counter[0], "k": rng.choice([1, 2, None]), "s": rng.choice(["x", "y"]), "nest": {"l": [1, 2], "d": {"z": counter[0]}}, "lst": [counter[0]]})
        for it in out:
            if rng.random() < 0.25:
                del it["s"]
        if out and rng.random() < 0.5:
            # heterogeneous, JSON-like data: a flat first item (optional nested values absent), nested values further down
            out[0]["nest"] = None
            out[0]["lst"] = None
        return out
    with capture_stdout() as buf:
        for r in range(case["nroots"]):
            nodes.append(Node(di.ListOfDicts(fresh_items(rng.randint(1, 6), r))))
    if case.get("long_chain"):
        res.cls("long-derivation-chain")
        with capture_stdout():
            cur = nodes[0]
            lst = cur.lst
            for j in range(case["long_chain"]):
                lst = lst.append({"_tag_": 900000 + j, "k": 1, "s": "x"})
                if j % 500 == 499 or j == case["long_chain"] - 1:
                    cur = Node(lst, parent=cur, how="append")
                    nodes.append(cur)
    edits = 0
    branches = 0
    cuts = 0
    children = {}
    join_by = ["k"]
    def other_list():
        # the right-hand list names its key "k" or "rk" (then the join is given the pair form, as a tuple or a list)
        kn = rng.choice(["k", "k", "rk"])
        join_by[0] = "k" if kn == "k" else rng.choice([("k", "rk"), ["k", "rk"]])
        with capture_stdout():
            return di.ListOfDicts([{kn: rng.choice([1, 2, None]), "extra": rng.choice([7, 8]), "_otag_": i} for i in range(rng.randint(0, 3))])
    for step in range(case["nsteps"]):
        node = rng.choice(nodes)
        r = rng.random()
        if r < 0.06 and len(nodes) > 2:
            # drop the monitor's own reference to a list: if the library keeps what it needs alive itself, nothing changes
            import gc
            victim = rng.choice(nodes)
            victim.lst = None
            nodes.remove(victim)
            gc.collect()
            trace.append("forget")
            continue
        if r < 0.15:
            op = "use"
        elif r < 0.27:
            op = rng.choice(["deepcopy", "deepcopy", "construct"])
        elif r < 0.62:
            op = rng.choice(HANDON)
        else:
            op = rng.choice(EDIT)
        lst = node.lst
        n = len(_items(lst))
        other = other_list() if op in ("semi_join", "anti_join", "inner_join", "left_join") else None
        # ---- U-ITEMS snapshot of every live item (and of the right-hand argument of a join)
        live = {}
        for nd in nodes:
            for it in _items(nd.lst):
                live[id(it)] = it
        if other is not None:
            for it in _items(other):
                live[id(it)] = it
        snap = {i: _content(it) for i, it in live.items()}
        recv_ids = {id(it) for it in _items(lst)}
        tree_snap = {id(nd): [_content(it) for it in _items(nd.lst)] for nd in nodes if nd.tree != node.tree}
        try:
            with capture_stdout() as buf:
                if op == "use": out = None; lst.pluck("_tag_")
                elif op == "deepcopy": out = lst.deepcopy()
                elif op == "filter": out = lst.filter(lambda x: x.get("k") != 2)
                elif op == "filter_out": out = lst.filter_out(k=2) if all("k" in x for x in _items(lst)) else lst.filter_out(lambda x: False)
                elif op == "sort" and _items(lst) and any("s" not in x for x in _items(lst)) and rng.random() < 0.5:
                    # a sort key that some item does not have: whether sort raises or copes, it is a non-modifying method
                    try: out = lst.sort(s=1)
                    except KeyError: out = lst.copy()
                    res.count("sort-on-absent-key")
                elif op == "sort": out = lst.sort(_tag_=rng.choice([1, -1])) if all("_tag_" in x for x in _items(lst)) else lst.copy()
                elif op == "unique": out = lst.unique("s") if all("s" in x for x in _items(lst)) else lst.copy()
                elif op == "head": out = lst.head(rng.randint(0, n + 1))
                elif op == "tail": out = lst.tail(rng.randint(0, n + 1))
                elif op == "slice": out = lst[rng.randint(0, 2):rng.choice([None, n, -1])]
                elif op == "copy": out = lst.copy()
                elif op == "chain": out = lst.filter(lambda x: True).sort(_tag_=1).head(n + 1) if all("_tag_" in x for x in _items(lst)) else lst.copy().reverse().reverse()
                elif op == "reverse": out = lst.reverse()
                elif op == "sample": out = lst.sample(rng.randint(0, n + 1))
                elif op in ("semi_join", "anti_join"):
                    out = getattr(lst, op)(other, join_by[0]) if all("k" in x for x in _items(lst)) else lst.copy()
                elif op == "drop_na": out = lst.drop_na("k")
                elif op == "map_dicts":
                    # map with a function that returns NEW dicts: the result holds none of the receiver's items (the shadow model sees that by identity)
                    out = lst.map(lambda x: dict(x, mapped=1))
                elif op == "probe_aggregate":
                    # a summary function that edits the group-wise list it is handed: that list is the function's own, the receiver's items stay as they are
                    if n and all("k" in x for x in _items(lst)):
                        lst.group_by("k").aggregate(m=lambda x: x.modify(zz9=lambda i: 1).pluck("zz9")[0] if len(x) else 0, f=lambda x: x[0])
                    else:
                        lst.pluck("_tag_")
                    out = None
                elif op == "probe_write_csv":
                    # writers and converters are non-modifying too, also for items with different key sets
                    if n:
                        lst.write_csv(os.path.join(os.environ.get("VERIF_SCRATCH") or "/tmp", f"c17_{os.getpid()}.csv"))
                    else:
                        lst.pluck("_tag_")
                    out = None
                elif op == "probe_to_json":
                    lst.to_json(); out = None
                elif op == "probe_to_data_frame":
                    try:
                        lst.to_data_frame() if n else lst.pluck("_tag_")
                    except (ValueError, TypeError):
                        pass        # items with nested list values do not make a frame: not this property's subject
                    out = None
                elif op == "group_by":
                    # marks the list for grouped operations; whatever it returns (the list itself or another list of the same items) stays in the history
                    out = lst.group_by("k") if all("k" in x for x in _items(lst)) else lst.copy()
                elif op == "append": out = lst.append(fresh_items(1, 0)[0])
                elif op == "extend": out = lst.extend(fresh_items(rng.randint(0, 2), 0))
                elif op == "add": out = lst + di.ListOfDicts(fresh_items(rng.randint(0, 2), 0))
                elif op == "mul": out = lst * rng.choice([1, 2])
                elif op == "modify": out = lst.modify(m=lambda x: 1, k=lambda x: 5)
                elif op == "modify_if": out = lst.modify_if(lambda x: True, q=lambda x: 2)
                elif op == "rename": out = lst.rename(s2="s")
                elif op == "select": out = lst.select("_tag_", "k", "nest", "lst")
                elif op == "unselect": out = lst.unselect("s", "q")
                elif op == "fill_missing_keys": out = lst.fill_missing_keys(filled=0, s="filled")
                elif op == "fill_missing_keys_noarg":
                    # the documented no-argument form fills every key missing from some item with None, in place
                    its = _items(lst)
                    if its and not all(set(a) == set(its[0]) for a in its):
                        out = lst.fill_missing_keys()
                    else:
                        op = "use"; out = None; lst.pluck("_tag_")
                elif op == "construct": out = di.ListOfDicts(_items(lst))
                elif op in ("inner_join", "left_join"):
                    if all("k" in x for x in _items(lst)):
                        out = getattr(lst, op)(other, join_by[0])
                    else:
                        op = "use"; out = None; lst.pluck("_tag_")
            printed = buf.getvalue()
            if op == "chain":
                import gc
                gc.collect()
        except Exception as e:
            res.violate(f"{op}:raised:{exc_name(e)}", f"history step {step} {op} raised {e!r}; trace {trace}")
            return res.dict()
        trace.append(op)
        if other is not None and out is not None:
            # the right-hand argument of a join is not derived from anything edited: using it afterwards prints nothing
            with capture_stdout() as obuf:
                try:
                    other.pluck("_otag_"); other.head(1)
                except Exception as e:
                    res.violate(f"{op}:right-operand-unusable:{exc_name(e)}", f"after {op} the right-hand list raised {e!r}; trace {trace}")
            if obuf.getvalue().strip():
                res.violate(f"{op}:right-operand-reported-obsolete", f"after {op}(other, {join_by[0]!r}) using the right-hand list printed {obuf.getvalue()[:200]!r}; trace {trace}")
            res.count("join-right-operand-checked")
        nwarn = len([l for l in printed.splitlines() if l.strip()])     # any printed line counts as the warning (wording may change)
        expect = 1 if (node.obsolete and not node.warned) else 0
        if op == "construct":
            expect = 0        # the constructor is handed the items, no method of the source list is used
        if nwarn != expect:
            if expect == 1:
                key = f"obsolete-list-did-not-warn:{node.how}"
            elif node.obsolete:
                key = "warned-more-than-once"
            else:
                key = f"non-obsolete-list-warned:{node.how}"
            res.violate(key, f"step {step}: {op} on a list (created by {node.how}, model obsolete={node.obsolete} warned={node.warned}) printed the warning {nwarn}x, expected {expect}x; trace {trace}")
            return res.dict()
        if op == "construct":
            pass
        elif expect:
            node.warned = True
            res.count("warned-on-first-use")
        elif node.obsolete:
            res.count("warn-once-second-use-silent")
        else:
            res.count("forbidden-silent-checked")
        # ---- U-ITEMS
        changed = [i for i, it in live.items() if _content(it) != snap[i]]
        if op in EDIT:
            outside = [i for i in changed if i not in recv_ids]
            if outside:
                where = "right-hand-argument" if other is not None and any(i in {id(x) for x in _items(other)} for i in outside) else "unrelated-item"
                res.violate(f"{op}:changed-{where}", f"step {step}: editing call {op} changed items that do not belong to its receiver; trace {trace}")
                return res.dict()
        elif changed:
            res.violate(f"{op}:non-modifying-method-changed-items", f"step {step}: {op} changed the content of {len(changed)} live item(s): {canon.short([snap[i] for i in changed], 300)} -> {canon.short([dict(live[i]) for i in changed], 300)}; trace {trace}")
            return res.dict()
        if other is not None:
            pass
        for nd in nodes:
            if id(nd) in tree_snap and [_content(it) for it in _items(nd.lst)] != tree_snap[id(nd)]:
                res.violate(f"{op}:changed-list-of-another-tree:{nd.how}", f"step {step}: {op} on a list of tree {node.tree} changed the contents of a list of tree {nd.tree} (created by {nd.how}): lists built by deepcopy or by the constructor are independent; trace {trace}")
                return res.dict()
        res.count("item-snapshots-compared", len(live))
        # ---- shadow forest update
        if op in EDIT:
            edits += 1
            res.count("editing-calls")
            res.count(f"edit:{op}")
            a = node
            while a is not None:
                a.obsolete = True
                a = a.parent
        if out is lst:
            out = None        # the method returned its receiver: same node of the history
        if out is not None:
            if not isinstance(out, di.ListOfDicts):
                res.violate(f"{op}:not-a-ListOfDicts", f"{type(out)}")
                return res.dict()
            if op == "deepcopy":
                cuts += 1
                res.count("deepcopy-cuts")
                # fresh objects all the way down
                olds = _items(lst)
                news = _items(out)
                if len(olds) != len(news) or any(dict(a) != dict(b) for a, b in zip(olds, news)):
                    res.violate("deepcopy:content-differs", f"step {step}; trace {trace}")
                    return res.dict()
                for a, b in zip(olds, news):
                    shared = a is b or any(isinstance(a[k], (list, dict)) and a[k] is b[k] for k in a) or \
                        any(isinstance(a.get("nest"), dict) and isinstance(v, (list, dict)) and v is b["nest"][k] for k, v in (a.get("nest") or {}).items())
                    if shared:
                        res.violate("deepcopy:shares-objects-with-original", f"step {step}: deepcopy returned items (or nested containers) that are the same objects as the original's; trace {trace}")
                        return res.dict()
            cut = op in ("deepcopy", "construct")
            if op == "map_dicts" and not ({id(x) for x in _items(out)} & {id(x) for x in _items(lst)}):
                cut = True        # none of the receiver's item objects was handed on: not an ancestor edge
            new = Node(out, parent=node, cut=cut, how=op)
            children[id(node)] = children.get(id(node), 0) + 1
            if children[id(node)] == 2:
                branches += 1
            nodes.append(new)
    # ---- final sweep: use every live list once (and a second time) and compare with the model
    for nd in nodes:
        for rep in range(2):
            with capture_stdout() as buf:
                nd.lst.pluck("_tag_")
            nwarn = len([l for l in buf.getvalue().splitlines() if l.strip()])
            expect = 1 if (nd.obsolete and not nd.warned) else 0
            if nwarn != expect:
                key = f"obsolete-list-did-not-warn:{nd.how}" if expect else ("warned-more-than-once" if nd.obsolete else f"non-obsolete-list-warned:{nd.how}")
                res.violate(key, f"final sweep: list created by {nd.how} (model obsolete={nd.obsolete} warned={nd.warned}) printed {nwarn}x expected {expect}x; trace {trace}")
                return res.dict()
            if expect: nd.warned = True
            if nd.obsolete and not expect: res.count("warn-once-second-use-silent")
            if not nd.obsolete: res.count("forbidden-silent-checked")
    if branches: res.count("branching-histories")
    res.sig = "|".join(trace)
    res.nontrivial = edits >= 1 and (branches >= 1 or cuts >= 1)
    res.observed = {"trace": trace, "nodes": len(nodes), "edits": edits}
    return res.dict()
