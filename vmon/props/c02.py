# -*- coding: utf-8 -*-
"""
C02 - row subsetting returns exactly the selected whole rows, in order.

Oracle: every frame carries a row-id column `_rid_` (0..n-1) next to payload
columns of mixed dtypes. A small model computes from the arguments which input
positions must be kept, in which order; the returned frame must equal the
input rows at exactly those positions, compared cell by cell on *every* column
(so a column subset with a different index than its neighbours is caught).
"""

import numpy as np

from vmon import canon, gen
from vmon.res import Result, exc_name

ID = "C02"
LEVEL = "exploration"
CASES = {"quick": 20000, "thorough": 2400000}
RULE = ("seeded random frames (row-id column + 1-5 payload columns over bool/int/float/str/long str/"
        "fixed-width str/date/datetime/object-bool, NA patterns none/some/first/last/all, duplicate patterns, "
        "hostile values +-inf, |x|>=2**53, +-0.0, >=50-char strings) x one subsetting call; non-trivial = "
        "frame has >= 2 rows and the call neither keeps everything nor nothing trivially (nrow>=2); distinct = "
        "distinct (op, argument form, column kinds, nrow class, NA presence) signatures")
ASSUMPTIONS = [
    "frames are built from NumPy arrays; reference positions are computed with plain Python/NumPy on the pre-call snapshot",
    "filter(col=value) means the conjunction of NumPy's element-wise == on each named column",
    "unique(): two cells are the same key iff both missing or both non-missing and == (so 0.0 and -0.0 are one key)",
]
REACH = {"quick": {"op:unique": 300, "op:filter": 300, "op:drop_na": 100, "op:slice": 100, "unique:na-key": 50,
                   "unique:float-hostile-with-na": 3, "nrow:0": 50, "slice:negative-positions": 100, "drop_na:after-inplace-edit": 100, "tag:big": 15}}

OPS = ["filter", "filter", "filter_out", "slice", "slice_off", "head", "tail", "drop_na", "sample", "unique", "unique", "unique"]

def generate(rng, tier):
    tags = set()
    op = rng.choice(OPS)
    nrow = gen.gen_nrow(rng, big=(tier == "thorough"))
    if rng.random() < 0.003:
        nrow = rng.choice([1500, 10100])       # size-dependent paths
        tags.add("big")
    hostile = 0.6 if op == "unique" else 0.25
    spec = gen.gen_frame_spec(rng, nrow=nrow, rid="_rid_", hostile=hostile, tags=tags, kinds=gen.KINDS_KEY + ["timedelta", "float32", "uint64", "int_be", "float_be", "datetime_be", "omix", "onum", "datetime_ns", "datetime_s"])
    case = {"op": op, "spec": spec, "tags": sorted(tags)}
    cols = [s[0] for s in spec if s[0] != "_rid_"]
    if op in ("filter", "filter_out"):
        form = rng.choice(["mask_vector", "mask_ndarray", "mask_list", "callable", "kv", "kv", "kv_callable_mask"])
        case["form"] = form
        if form.startswith("mask") or form == "callable":
            case["mask"] = [rng.random() < rng.choice([0.2, 0.5, 0.8]) for _ in range(nrow)]
        else:
            k = rng.randint(1, min(2, len(cols)))
            pairs = []
            for name in rng.sample(cols, k):
                kind, values = [(s[1], s[2]) for s in spec if s[0] == name][0]
                present = [v for v in values if v is not None]
                r = rng.random()
                if present and r < 0.75:
                    v = rng.choice(present)
                elif r < 0.9:
                    v = rng.choice(gen.pool(rng, kind, 0.0))
                else:
                    v = None  # NA-valued condition
                pairs.append((name, kind, v))
            case["pairs"] = pairs
    elif op in ("slice", "slice_off"):
        m = rng.choice([0, 1, nrow, rng.randint(0, nrow + 3)])
        if nrow == 0:
            idx = []
        elif op == "slice":
            idx = [rng.randrange(nrow) for _ in range(m)]
            if rng.random() < 0.4:
                idx = sorted(set(idx))
            r2 = rng.random()
            if r2 < 0.15:
                k = rng.randint(1, nrow)
                idx = list(range(-k, 0))                      # a run of negative positions ending at the last row
            elif r2 < 0.25:
                idx = [rng.randrange(-nrow, nrow) for _ in range(m)]   # negative positions count from the end
            elif r2 < 0.3 and nrow >= 2:
                idx = [-1, 0, 1][:nrow + 1]
        else:
            idx = [rng.randrange(nrow) for _ in range(m)]
            if rng.random() < 0.2:
                idx = [rng.randrange(-nrow, nrow) for _ in range(m)]
        case["idx"] = idx
        case["form"] = rng.choice(["list", "ndarray", "vector", "tuple", "ndarray_int32", "np_scalars", "range"])
    elif op in ("head", "tail", "sample"):
        case["n"] = rng.choice([0, 1, max(0, nrow - 1), nrow, nrow + 3, None, rng.randint(0, nrow + 1)])
        case["ntype"] = rng.choice(["int", "int", "np.int64", "np.int32"])
    elif op == "drop_na":
        k = rng.randint(0, len(cols))
        case["cols"] = rng.sample(cols, k)
        if case["cols"] and nrow and rng.random() < 0.4:
            case["edit"] = (rng.choice(case["cols"]), rng.randrange(nrow), rng.random() < 0.6)
    elif op == "unique":
        r = rng.random()
        if r < 0.15:
            case["keys"] = []       # all columns; the row id is dropped from the frame
            case["spec"] = [s for s in spec if s[0] != "_rid_"]
        else:
            k = rng.randint(1, min(3, len(cols)))
            case["keys"] = rng.sample(cols, k)
            strk = [i for i, s_ in enumerate(case["spec"]) if s_[1] == "str" and s_[0] in case["keys"]]
            if strk and rng.random() < 0.35:
                # keys that differ only by trailing NUL characters are different strings
                i = rng.choice(strk)
                n_, k_, vs_ = case["spec"][i]
                case["spec"][i] = (n_, k_, [v + rng.choice(["\x00", "\x00\x00"]) if isinstance(v, str) and rng.random() < 0.4 else v for v in vs_])
                case["tags"] = sorted(set(case["tags"]) | {"nul-suffixed-keys"})
    return case

def _to_np_value(kind, v):
    if v is None:
        if kind in ("float", "float32"): return np.nan
        if kind == "timedelta": return np.timedelta64("NaT")
        if kind in ("str", "lstr", "ustr"): return ""
        if kind in ("date", "datetime"): return np.datetime64("NaT")
        return None
    if kind == "date": return np.datetime64(v.isoformat(), "D")
    if kind == "datetime": return np.datetime64(v.isoformat(), "us")
    if kind == "timedelta": return np.timedelta64(v)
    return v

def execute(case):
    import dataiter as di
    op = case["op"]
    spec = case["spec"]
    nrow = len(spec[0][2]) if spec else 0
    kinds = [s[1] for s in spec if s[0] != "_rid_"]
    has_na = any(v is None for s in spec for v in s[2])
    form = case.get("form", "")
    res = Result(sig=f"{op}|{form}|{','.join(sorted(set(kinds)))}|n{gen.nrow_class(nrow)}|na{int(has_na)}|k{len(case.get('keys', case.get('pairs', case.get('cols', []))) or [])}",
                 nontrivial=nrow >= 2)
    res.cls(f"op:{op}", f"nrow:{gen.nrow_class(nrow)}")
    for t in case.get("tags", []):
        res.cls("tag:" + t)
    df = gen.build_frame(spec)
    pre = canon.frame_cells(df)
    names = list(pre)
    if names and len(repr(spec)) % 5 == 0:
        # the receiver was used for a grouped summary earlier (group_by marks the frame in place): row subsetting is not affected by that
        gcols = [n_ for n_ in names if n_ != "_rid_" and canon.dtype_kind(dict.__getitem__(df, n_)) not in ("object", "bytes", "other")][:1 + len(spec) % 2]
        if gcols:
            try:
                df.group_by(*gcols).aggregate(n=di.count())
                res.cls("grouped-receiver")
            except Exception:
                pass
    pre_rows = list(zip(*[pre[n] for n in names])) if names else []
    expected = None     # list of input positions
    check_set_only = False
    try:
        if op in ("filter", "filter_out"):
            if form.startswith("mask") or form == "callable":
                mask = list(case["mask"])
                if form == "mask_vector": arg = di.Vector(mask, bool) if nrow else di.Vector([], bool)
                elif form == "mask_ndarray": arg = np.array(mask, dtype=bool)
                elif form == "mask_list": arg = list(mask)
                else:
                    m = np.array(mask, dtype=bool)
                    arg = lambda d: m.copy()
                out = getattr(df, op)(arg)
            else:
                pairs = case["pairs"]
                m = np.ones(nrow, dtype=bool)
                kw = {}
                for name, kind, v in pairs:
                    val = _to_np_value(kind, v)
                    if v is not None and nrow and len(repr(v)) % 3 == 0:
                        # the value as a scalar of the column's own NumPy dtype (np.str_, np.bool_, np.float32, ...), as when it is taken from a column
                        pos = [i for i, c in enumerate(pre[name]) if c == canon.canon_obj(v, string_na=kind in ("str", "lstr", "ustr"))]
                        if pos:
                            val = np.asarray(dict.__getitem__(df, name))[pos[0]]
                            res.cls("filter:value-as-numpy-scalar")
                    kw[name] = val
                    raw = np.asarray(dict.__getitem__(df, name)).view(np.ndarray)
                    with np.errstate(all="ignore"):
                        m = m & np.asarray(raw == val, dtype=bool)
                mask = m.tolist()
                if any(v is None for _, _, v in pairs):
                    res.cls("filter:na-valued-condition")
                if form == "kv":
                    out = getattr(df, op)(**kw)
                else:
                    # the three calling forms must be interchangeable
                    out = getattr(df, op)(**kw)
                    out2 = getattr(df, op)(lambda d: np.array(mask, dtype=bool))
                    out3 = getattr(df, op)(di.Vector.fast(mask, bool))
                    r1, r2, r3 = canon.frame_cells(out), canon.frame_cells(out2), canon.frame_cells(out3)
                    if not (r1 == r2 == r3):
                        res.violate(f"{op}:forms-disagree", f"kv/callable/mask forms disagree: {canon.short(r1)} vs {canon.short(r2)} vs {canon.short(r3)}")
                    res.count("forms-compared")
            expected = [i for i in range(nrow) if mask[i]] if op == "filter" else [i for i in range(nrow) if not mask[i]]
            # filter and filter_out partition the input
            other = "filter_out" if op == "filter" else "filter"
            if form == "mask_list":
                out_o = getattr(df, other)(list(mask))
                ids = sorted([c[1] for c in canon.col_cells(dict.__getitem__(out, "_rid_"))] +
                             [c[1] for c in canon.col_cells(dict.__getitem__(out_o, "_rid_"))])
                if ids != list(range(nrow)):
                    res.violate(f"{op}:not-a-partition", f"filter U filter_out ids {ids} != 0..{nrow-1}")
                res.count("partition-checked")
        elif op in ("slice", "slice_off"):
            idx = list(case["idx"])
            if form == "ndarray": arg = np.array(idx, dtype=int)
            elif form == "vector": arg = di.Vector(idx, int) if idx else di.Vector([], int)
            elif form == "tuple": arg = tuple(idx)
            elif form == "ndarray_int32": arg = np.array(idx, dtype=np.int32)
            elif form == "np_scalars": arg = [np.int64(i) for i in idx]
            elif form == "range" and idx and idx == list(range(idx[0], idx[-1] + 1)): arg = range(idx[0], idx[-1] + 1)
            else: arg = idx
            res.cls(f"rows-as:{type(arg).__name__}")
            out = getattr(df, op)(rows=arg)
            if isinstance(arg, np.ndarray) and np.asarray(arg).tolist() != idx:
                # the caller's index vector is the caller's: used again (on this or another frame) it must still name the same positions
                res.violate(f"{op}:index-argument-changed", f"{op}(rows={idx} as {form}) left its argument as {np.asarray(arg).tolist()}")
            elif isinstance(arg, np.ndarray) and idx:
                again = getattr(df, op)(rows=arg)
                if canon.frame_cells(again) != canon.frame_cells(out):
                    res.violate(f"{op}:second-call-with-same-argument-differs", f"{op}(rows={idx} as {form}) twice with the same array gave different rows")
                res.count("index-argument-reused")
            if any(i < 0 for i in idx): res.cls("slice:negative-positions")
            if op == "slice":
                expected = [i % nrow for i in idx] if nrow else []
            else:
                drop = {i % nrow for i in idx} if nrow else set()
                expected = [i for i in range(nrow) if i not in drop]
        elif op in ("head", "tail"):
            n = case["n"]
            if n is not None and case.get("ntype", "int") != "int":
                n = {"np.int64": np.int64, "np.int32": np.int32}[case["ntype"]](n)      # a count taken from another array is a NumPy scalar
                res.cls("n-as-numpy-scalar")
            peek0 = di.DEFAULT_PEEK_ROWS
            if n is None and len(repr(case["spec"])) % 2 == 0:
                # the documented option is read when the call is made, not when the module was imported
                di.DEFAULT_PEEK_ROWS = [3, 15, 1][len(repr(case["spec"])) % 3]
                res.cls("peek-default-changed")
            try:
                out = getattr(df, op)(n) if n is not None else getattr(df, op)()
                k = min(nrow, di.DEFAULT_PEEK_ROWS if n is None else n)
            finally:
                di.DEFAULT_PEEK_ROWS = peek0
            expected = list(range(k)) if op == "head" else list(range(nrow - k, nrow))
        elif op == "sample":
            n = case["n"]
            np.random.seed(len(repr(case)) % 1000)
            peek0 = di.DEFAULT_PEEK_ROWS
            if n is None and len(repr(case["spec"])) % 2 == 0:
                di.DEFAULT_PEEK_ROWS = [3, 15, 1][len(repr(case["spec"])) % 3]
                res.cls("peek-default-changed")
            try:
                out = df.sample(n) if n is not None else df.sample()
                k = min(nrow, di.DEFAULT_PEEK_ROWS if n is None else n)
            finally:
                di.DEFAULT_PEEK_ROWS = peek0
            rids = [c[1] for c in canon.col_cells(dict.__getitem__(out, "_rid_"))]
            if len(rids) != k or len(set(rids)) != len(rids) or rids != sorted(rids) or any(not (0 <= r < nrow) for r in rids):
                res.violate("sample:bad-positions", f"sample({n}) of {nrow} rows gave rids {rids}")
            expected = rids
            if nrow >= 1500 and "big" in case.get("tags", []):
                # small peeks at a big frame, many times: a sample never contains a row twice
                for rep in range(500 if nrow >= 10000 else 60):
                    rng_n = 5 if rep % 2 else 10
                    peek = df.sample(rng_n)
                    r2 = [c[1] for c in canon.col_cells(dict.__getitem__(peek, "_rid_"))]
                    if len(set(r2)) != len(r2) or len(r2) != min(nrow, rng_n) or r2 != sorted(r2):
                        res.violate("sample:bad-positions:repeated-small-peeks", f"sample({rng_n}) of {nrow} rows gave rids {r2} (draw {rep})")
                        break
                res.count("sample-repeated-peeks")
        elif op == "drop_na":
            cols = case["cols"]
            ed = case.get("edit")
            if ed and nrow:
                # same-object history: ask for missing values, put / remove a missing value in place, ask again
                col, pos, to_na = ed
                try:
                    df.drop_na(col); dict.__getitem__(df, col).tolist(); df.to_list_of_dicts()
                except Exception:
                    pass
                cv = dict.__getitem__(df, col)
                arr = np.asarray(cv)
                if to_na:
                    arr[pos % nrow] = cv.na_value if arr.dtype.kind in "OfMm" or str(arr.dtype).startswith("StringDType") or arr.dtype.kind == "U" else arr[pos % nrow]
                else:
                    src = [i for i in range(nrow) if pre[col][i] != canon.NA]
                    if src: arr[pos % nrow] = arr[src[0]]
                pre = canon.frame_cells(df)
                pre_rows = list(zip(*[pre[n] for n in names])) if names else []
                res.cls("drop_na:after-inplace-edit")
            out = df.drop_na(*cols)
            expected = [i for i in range(nrow) if not any(pre[c][i] == canon.NA for c in cols)]
            if any(pre[c][i] == canon.NA for c in cols for i in range(nrow)):
                res.cls("drop_na:has-na")
        elif op == "unique":
            keys = case["keys"]
            out = df.unique(*keys)
            knames = keys or names
            seen = set()
            expected = []
            for i in range(nrow):
                k = tuple(pre[c][i] for c in knames)
                if k not in seen:
                    seen.add(k)
                    expected.append(i)
            if any(pre[c][i] == canon.NA for c in knames for i in range(nrow)):
                res.cls("unique:na-key")
                if "float_hostile" in case.get("tags", []):
                    res.cls("unique:float-hostile-with-na")
            if not keys:
                res.cls("unique:no-keys")
    except Exception as e:
        res.violate(f"{op}:raised:{exc_name(e)}", f"{op} raised {e!r} on spec {canon.short(spec, 600)} args {canon.short({k: v for k, v in case.items() if k not in ('spec',)}, 400)}")
        return res.dict()
    # ---- whole rows, exact positions, order
    if not isinstance(out, di.DataFrame):
        res.violate(f"{op}:not-a-frame", f"returned {type(out)}")
        return res.dict()
    post = canon.frame_cells(out)
    if list(post) != names:
        res.violate(f"{op}:columns-changed", f"columns {list(post)} != {names}")
        return res.dict()
    out_rows = list(zip(*[post[n] for n in names])) if names else []
    lens = {len(post[n]) for n in names}
    if len(lens) > 1:
        res.violate(f"{op}:ragged", f"column lengths {lens}")
        return res.dict()
    exp_rows = [pre_rows[i] for i in expected]
    if out_rows != exp_rows or any(not canon.cells_eq(a, b) for a, b in zip(out_rows, exp_rows)):
        got_ids = [r[names.index("_rid_")][1] for r in out_rows] if "_rid_" in names else None
        res.violate(f"{op}:wrong-rows", f"{op} kept rids {got_ids}, expected positions {expected}; "
                    f"first diff {canon.first_diff(out_rows, exp_rows)}; spec {canon.short(spec, 800)} "
                    f"args {canon.short({k: v for k, v in case.items() if k != 'spec'}, 400)}")
    # input unchanged (cheap U-NOMUT on the receiver)
    if canon.frame_cells(df) != pre:
        res.violate(f"{op}:mutated-input", "receiver changed by a subsetting call")
    res.count("rows-compared", len(out_rows))
    res.observed = {"kept": len(out_rows), "of": nrow}
    return res.dict()
