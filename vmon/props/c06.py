# -*- coding: utf-8 -*-
"""
C06 - operations neither mutate nor alias their inputs.

(1) Random programs of DataFrame operations (vmon/programs.py) with the
U-NOMUT / U-NOALIAS monitors: byte-level snapshots of every operand before and
after each non-in-place call, np.shares_memory(result column, operand column),
and an active probe that overwrites element 0 of every result column and
re-compares the operands.  (2) The same for every public Vector method that
returns a vector.
"""

import numpy as np

from vmon import canon, gen, programs
from vmon.res import Result, exc_name

ID = "C06"
LEVEL = "exploration"
CASES = {"quick": 3000, "thorough": 384000}
RULE = ("(a) seeded random programs of 12-30 DataFrame operations on frames that include legacy fixed-width string, float32/int32, bytes, "
        "timedelta and object columns, (b) single calls of every public Vector method returning a vector (as_*, concat, drop_na, head, "
        "tail, map, range, rank, replace_na, sample, sort, unique, to_strings, dt/re/str proxies) on vectors of every dtype; monitors: "
        "operand snapshots before/after, shares_memory, active write probe; non-trivial = >= 8 successful steps (a) / vector length >= 1 "
        "(b); distinct = distinct operation sequences / (method, dtype) pairs")
ASSUMPTIONS = [
    "whitelisted by the statement: group_by, copy (shallow), item/attribute assignment and deletion, pop, popitem, colnames assignment, and the constructor given ready columns",
    "only array-level memory is judged; nested mutable objects inside object columns are shared by every NumPy copy",
]
REACH = {"quick": {"nomut-checks": 20000, "alias-checks": 20000, "active-probes": 5000, "vector-calls": 1000, "ok:sort": 200, "ok:unique": 200,
                   "ok:aggregate": 50, "ok:split": 50, "vec:kind:ustr": 30}}

VMETHODS = ["as_boolean", "as_bytes", "as_date", "as_datetime", "as_float", "as_integer", "as_object", "as_string", "concat", "drop_na",
            "head", "tail", "map", "range", "rank", "replace_na", "sample", "sort", "sort_desc", "unique", "to_strings", "tolist_roundtrip",
            "is_na", "dt.year", "dt.replace", "re.sub", "str.upper", "equal", "rank_ordinal", "getitem_slice_copy",
            "dt.replace_nothing", "dt.replace_none", "re.sub_nomatch", "replace_na_noop", "head_all", "tail_all",
            "construct_from_array", "construct_from_vector", "column_from_array", "frame_from_array", "setitem_array", "geojson_to_data_frame"]

def generate(rng, tier):
    if rng.random() < 0.45:
        return {"mode": "program", "pseed": rng.getrandbits(48), "nsteps": rng.randint(12, 30)}
    kind = rng.choice(programs.KINDS_ALL)
    n = rng.choice([0, 1, 2, 3, 5, 8])
    vals = gen.gen_values(rng, kind, n, rng.choice(gen.NA_PATTERNS), rng.choice(["few", "distinct"]), 0.3)
    return {"mode": "vector", "kind": kind, "values": vals, "method": rng.choice(VMETHODS), "seed": rng.getrandbits(16)}

def execute(case):
    import dataiter as di
    if case["mode"] == "program":
        mon = programs.Monitors(rect=False, nomut=True)
        prog = programs.Program(case["pseed"], case["nsteps"], mon, kinds=programs.KINDS_ALL, odd_names=False)
        trace = prog.run()
        ops = [t.split(":")[1] for t in trace]
        res = Result(sig="P|" + "|".join(ops), nontrivial=sum(prog.ok_ops.values()) >= 8)
        res.cls("mode:program")
        for k, v in mon.counters.items():
            res.count(k, v)
        for k, v in prog.ok_ops.items():
            res.count("ok:" + k, v)
        for v in mon.violations:
            if v["prop"] == "C06":
                res.violate(v["key"], v["msg"] + f" | program seed {case['pseed']} trace {trace[-12:]}")
        res.observed = {"trace": trace[:30]}
        return res.dict()
    kind, values, m = case["kind"], case["values"], case["method"]
    res = Result(sig=f"V|{m}|{kind}", nontrivial=len(values) >= 1)
    res.cls("mode:vector")
    res.count(f"vec:kind:{kind}")
    vec = di.Vector(gen.np_column(kind, values))
    other = di.Vector(gen.np_column(kind, values[::-1]))
    np.random.seed(case["seed"])
    snap = programs._vec_snapshot(vec)
    snap_o = programs._vec_snapshot(other)
    try:
        if m == "concat":
            # also the degenerate forms: nothing to add, an empty argument, an empty receiver (the result must still be new memory)
            form = case["seed"] % 4
            res.cls(f"concat:form{form}")
            if form == 0: out = vec.concat(other)
            elif form == 1: out = vec.concat()
            elif form == 2: out = vec.concat(di.Vector(gen.np_column(kind, [])))
            else: out = di.Vector(gen.np_column(kind, [])).concat(other)
        elif m == "map": out = vec.map(lambda x: x)
        elif m == "replace_na":
            fill = vec.na_value if len(values) == 0 else np.asarray(vec)[0]
            out = vec.replace_na(fill)
        elif m == "sort_desc": out = vec.sort(dir=-1)
        elif m == "rank_ordinal": out = vec.rank(method="ordinal")
        elif m == "tolist_roundtrip": out = di.Vector(vec.tolist(), np.asarray(vec).dtype)
        elif m == "dt.year": out = vec.dt.year()
        elif m == "dt.replace": out = vec.dt.replace(month=1, day=1)
        elif m == "re.sub": out = vec.re.sub("a", "b")
        # calls that have nothing to do (no component given, nothing matches, nothing missing, everything kept) still return NEW data
        elif m == "dt.replace_nothing": out = vec.dt.replace()
        elif m == "dt.replace_none": out = vec.dt.replace(year=None, month=None)
        elif m == "re.sub_nomatch": out = vec.re.sub("\\uffff{3}", "b")
        elif m == "replace_na_noop": out = vec.drop_na().replace_na(vec.na_value) if False else di.Vector(np.asarray(vec)[~np.asarray(vec.is_na())]).replace_na(0 if kind in ("int", "float", "bool") else vec.na_value)
        elif m == "head_all": out = vec.head(len(values) + 3)
        elif m == "tail_all": out = vec.tail(len(values) + 3)
        elif m == "str.upper": out = vec.str.upper()
        elif m == "equal": out = vec.equal(other)
        elif m == "getitem_slice_copy": out = vec.head(len(values))
        # constructors (and item assignment) given a plain NumPy array or a vector of the final dtype: the new object holds its own data
        elif m == "construct_from_array": out = di.Vector(np.asarray(vec))
        elif m == "construct_from_vector": out = di.Vector(vec)
        elif m == "column_from_array": out = di.DataFrameColumn(np.asarray(vec))
        elif m == "frame_from_array": out = dict.__getitem__(di.DataFrame(x=np.asarray(vec)), "x")
        elif m == "geojson_to_data_frame":
            # a conversion returns a new object: the plain data frame made of a GeoJSON holds its own columns
            gj = di.GeoJSON(x=np.asarray(vec).copy(), geometry=[None] * len(values))
            out = dict.__getitem__(gj.to_data_frame(), "x")
            if len(values) and np.shares_memory(np.asarray(out), np.asarray(dict.__getitem__(gj, "x"))):
                res.violate("geojson.to_data_frame:result-aliases-receiver", f"GeoJSON.to_data_frame on {kind} {canon.short(values)} returns columns shared with the GeoJSON")
        elif m == "setitem_array":
            fr = di.DataFrame()
            fr["x"] = np.asarray(vec)
            out = dict.__getitem__(fr, "x")
        else: out = getattr(vec, m)()
    except Exception as e:
        res.count(f"vector-call-raised:{exc_name(e)}")
        out = None
    res.count("vector-calls")
    if programs._vec_snapshot(vec) != snap or programs._vec_snapshot(other) != snap_o:
        res.violate(f"vector.{m}:mutated-operand:{kind}", f"Vector.{m} changed its receiver/argument: {kind} {canon.short(values)} -> {canon.short(np.asarray(vec).tolist())}")
    if isinstance(out, np.ndarray) and out.ndim == 1:
        if np.shares_memory(np.asarray(out), np.asarray(vec)) or np.shares_memory(np.asarray(out), np.asarray(other)):
            res.violate(f"vector.{m}:result-aliases-operand", f"Vector.{m} on {kind} {canon.short(values)} returns memory shared with its operand")
        a = np.asarray(out)
        if a.shape[0] and a.flags.writeable:
            nv = programs.different_value(a)
            if nv is not None:
                try:
                    a[0] = nv
                    res.count("active-probes")
                except Exception:
                    pass
                if programs._vec_snapshot(vec) != snap or programs._vec_snapshot(other) != snap_o:
                    res.violate(f"vector.{m}:write-to-result-visible-in-operand", f"Vector.{m} on {kind} {canon.short(values)}")
    return res.dict()
