# -*- coding: utf-8 -*-
"""
C12 - writing a file and reading it back reproduces the data frame.

Oracle: the frame comparator on read_X(write_X(data)) (names, order, values,
NA positions; dtype family for the binary formats) + the compression magic of
the written file read from its first bytes.
"""

import datetime
import os

import numpy as np

from vmon import canon, gen
from vmon.res import Result, exc_name

ID = "C12"
LEVEL = "exploration"
CASES = {"quick": 1600, "thorough": 180000}
RULE = ("seeded random frames (>=1 row, >=2 columns; bool/int/float/str/date/datetime (+object, fixed-width, timedelta, float32 for "
        "pickle/npz), NA in every position incl. first row, Unicode, delimiter/quote/newline inside strings) and lists of dicts, written and "
        "read back over {pickle,npz,parquet,csv,json} x {plain,.gz,.bz2,.xz} x {sep, header, encoding, compress, compression}; non-trivial "
        "= every executed round trip; distinct = distinct (class, format, suffix, option, column kinds) signatures")
ASSUMPTIONS = [
    "CSV representability: each string column holds a value that cannot be parsed as number/bool/date/null, >= 2 columns (a missing value of a single-column frame is an empty line), datetimes compared as instants (incl. years outside the nanosecond range 1678-2261); without header only values are compared",
    "JSON representability: bool/int/float/string columns (+None); dates are read back with the documented dtypes= map",
    "text must be encodable in the chosen encoding; BOM encodings (utf-16, utf-8-sig) are combined with plain and .gz paths only (CPython's text layer over the non-seekable bz2 / lzma write streams emits no BOM, so 'utf-16' cannot read the file back: an interpreter quirk, not the library's)",
    "compression magic is asserted for writers documented to compress by suffix (csv, json, pickle); for npz and parquet only the round trip is asserted",
    "dtype equality for Parquet is asserted for bool/int/float/string/date/datetime columns",
]
# floors are at least 7 standard deviations below the mean count of a quick run (a floor that the unchanged tree can miss by chance is a broken check)
REACH = {"quick": {"fmt:pickle": 80, "fmt:npz": 80, "fmt:parquet": 80, "fmt:csv": 220, "fmt:json": 80, "fmt:lod-json": 70, "fmt:lod-csv": 70,
                   "fmt:lod-pickle": 70, "suffix:.gz": 150, "suffix:.bz2": 150, "suffix:.xz": 150, "string-na-first": 60, "magic-checked": 300, "big-file": 2, "lod-history": 50}}

MAGIC = {".gz": b"\x1f\x8b", ".bz2": b"BZh", ".xz": b"\xfd7zXZ"}
IO_STR = ["abc", "a,b", 'say "hi"', "line1\nline2", "semi;colon", "tab\there", "pipe|d", "ünï", "日本語", " lead", "trail ", "'single'",
          "back\\slash", "x", "née", "Zoë", "\U0001F600 smile", "q" * 60,
          # characters that str.splitlines() treats as line boundaries but file iteration / CSV parsers do not
          "ls\u2028sep", "ps\u2029sep", "nel\x85x", "vt\x0bx", "ff\x0cx", "fs\x1cx",
          # carriage returns inside values (a CSV reader must not take them for line ends; text layers must not translate them)
          "cr\rx", "crlf\r\nx",
          # ordinary strings that some parsers read as null markers
          "NA", "N/A", "null", "NULL", "nan", "NaN", "#N/A", "None", "n/a"]
LATIN = ["abc", "a,b", 'say "hi"', "ünï", "née", "Zoë", "semi;colon", "x y", "line1\nline2", "pipe|d", "NA", "null", "nan", "N/A"]

FORMATS = ["pickle", "npz", "parquet", "csv", "csv", "json", "lod-json", "lod-csv", "lod-pickle"]

NULLISH = {"NA", "N/A", "null", "NULL", "nan", "NaN", "#N/A", "None", "n/a", "true", "false", "True", "False", "inf"}      # text a type-inferring reader takes for null / bool / number

def _str_values(rng, n, pool, na):
    vals = [rng.choice(pool) for _ in range(n)]
    anchor = rng.randrange(n)
    if na == "first": vals[0] = None
    elif na == "some":
        vals = [None if rng.random() < 0.3 else v for v in vals]
    elif na == "last": vals[-1] = None
    if all(v is None for v in vals) or not any(v is not None and v not in NULLISH and any(ch.isalpha() for ch in v) for v in vals):
        vals[anchor if anchor or na != "first" else n - 1 if n > 1 else 0] = "abc"
    return vals

def _big_csv(rng):
    """Size-dependent reader paths: a CSV of several MB (pyarrow reads in 1 MB blocks) with line breaks inside values."""
    n = rng.choice([30000, 45000])
    texts = ["first line\nsecond line of this value", "plain value without any break", "a,b;c", 'say "hi"\nand bye', "x" * 70 + "\n" + "y" * 30]
    spec = [("id", "int", list(range(n))), ("text", "str", [rng.choice(texts) for _ in range(n)]), ("v", "float", [rng.choice([0.5, 1.25, None]) for _ in range(n)]),
            ("note", "str", [rng.choice(texts + [None]) for _ in range(n)])]
    return {"fmt": "csv", "suffix": rng.choice(["", "", ".gz"]), "opts": rng.choice([{}, {"sep": ";"}]), "spec": spec, "big": True}

def _big_json(rng):
    """Size-dependent reader paths: > 1000 rows, the first missing value of a column far from the top (as after a sort, which puts missing values last)."""
    n = rng.choice([1200, 2500, 5200])
    late = rng.choice([1001, 1100, n - 3])
    flag = [rng.choice([True, False]) for _ in range(n)]
    name = [rng.choice(["abc", "x y", "ünï", "q"]) for _ in range(n)]
    val = [rng.choice([0.5, 1.25, -3.0]) for _ in range(n)]
    for i in range(late, n):
        if rng.random() < 0.5: flag[i] = None
        if rng.random() < 0.5: name[i] = None
        if rng.random() < 0.5: val[i] = None
    flag[late] = None; name[late] = None
    spec = [("id", "int", list(range(n))), ("flag", "obool", flag), ("name", "str", name), ("val", "float", val)]
    return {"fmt": "json", "suffix": rng.choice(["", "", ".gz"]), "opts": {}, "spec": spec, "big": True}

def generate(rng, tier):
    r0_ = rng.random()
    if r0_ < 0.014:
        return _big_csv(rng)
    if r0_ < 0.024:
        return _big_json(rng)
    fmt = rng.choice(FORMATS)
    suffix = rng.choice(["", "", ".gz", ".bz2", ".xz"])
    case = {"fmt": fmt, "suffix": suffix, "opts": {}}
    if rng.random() < 0.12:
        case["subdir"] = rng.choice(["year=2024", "a=1/b=x", "v1.2.csv", "with space", "x=1"])
    elif rng.random() < 0.1:
        case["relpath"] = rng.choice(["bare", "bare", "dot", "newdir"])
    n = rng.choice([1, 2, 3, 5, 9])
    enc = "utf-8"
    if fmt in ("csv", "json", "lod-json", "lod-csv"):
        encs = ["utf-8", "utf-8", "latin-1", "cp1252"] + (["utf-16", "utf-8-sig"] if suffix in ("", ".gz") else ["utf-16-le"])
        if rng.random() < 0.4:
            enc = rng.choice(encs)
            case["opts"]["encoding"] = enc
    pool = LATIN if enc in ("latin-1", "cp1252") else IO_STR
    if fmt in ("csv", "lod-csv"):
        if rng.random() < 0.5:
            case["opts"]["sep"] = rng.choice([",", ";", "\t", "|"])
        if rng.random() < 0.3:
            case["opts"]["header"] = False
    if fmt == "npz" and rng.random() < 0.5:
        case["opts"]["compress"] = rng.choice([True, False])
    if fmt == "parquet" and rng.random() < 0.5:
        case["opts"]["compression"] = rng.choice(["snappy", "gzip", "none", "zstd"])
    if fmt.startswith("lod-"):
        keys = rng.sample(["a", "b", "c", "d", "e"], rng.randint(1, 4))
        if rng.random() < 0.06:
            keys = [rng.choice([" a", "a "] if enc in ("latin-1", "cp1252") else ["\ufeffid", "\u200bname", " a", "a ", "\ufeffid"])] + keys      # a first key that begins / ends with a character text tools like to strip
        items = []
        for i in range(n):
            if fmt == "lod-csv":
                # every item has every key, but not necessarily inserted in the same order (items gathered from different sources)
                ks = list(keys)
                if rng.random() < 0.3: rng.shuffle(ks)
                items.append({k: rng.choice(pool + [""]) for k in ks})
            else:
                it = {}
                for k in keys:
                    if fmt == "lod-json" and rng.random() < 0.15: continue   # ragged
                    it[k] = rng.choice([None, True, 3, 2.5, "s", rng.choice(pool), [1, "x", None], {"n": {"m": [1.5]}}, -7, 10**20])
                items.append(it)
        if rng.random() < 0.02 and items and keys and suffix in ("", ".gz"):
            items[rng.randrange(len(items))][keys[0]] = ("long text " * 10 + "\n") * (rng.choice([140_000, 1_300_000]) // 101)
            case["huge_cell"] = True
        case["items"] = items
        if rng.random() < 0.3:
            case["history"] = rng.choice(["add", "delete", "append"])
        return case
    kinds = {"pickle": ["bool", "int", "float", "str", "lstr", "date", "datetime", "obool", "ustr", "timedelta", "float32", "int32", "obj", "uint64", "uint32"],
             "npz": ["bool", "int", "float", "str", "date", "datetime", "obool", "ustr", "timedelta", "float32", "uint64", "uint32"],
             "parquet": ["bool", "int", "float", "str", "date", "datetime", "uint64", "timedelta", "int32", "float32", "uint32"],
             "csv": ["bool", "int", "float", "str", "date", "datetime", "float32"],
             "json": ["bool", "int", "float", "str", "obool", "float32"]}[fmt]
    ncol = rng.randint(2, 5)
    spec = []
    for j in range(ncol):
        kind = rng.choice(kinds)
        na = rng.choice(["none", "some", "first", "last"])
        if kind in ("str", "lstr"):
            vals = _str_values(rng, n, pool, na)
            kind = "str"
        elif kind == "ustr":
            vals = _str_values(rng, n, ["abc", "ab", "x", "ünï"], na)
        elif kind == "datetime" and fmt == "csv":
            vals = [rng.choice(gen.DATETIMES) for _ in range(n)]
            if rng.random() < 0.1:
                # instants outside the range of nanosecond timestamps (1677-09-21 .. 2262-04-11), still plain ISO text in the file
                vals[rng.randrange(n)] = rng.choice(gen.DATETIMES_EXT + [datetime.datetime(1500, 1, 1, 10, 0), datetime.datetime(2500, 6, 1, 0, 0, 1)])
            if na == "first": vals[0] = None
        elif kind == "float32":
            vals = [None if (na == "some" and rng.random() < 0.3) else rng.choice([0.1, 2.7, 1 / 3, 0.5, -1.25, 1e-3, 123456.789]) for _ in range(n)]
        elif kind == "float":
            vals = gen.gen_values(rng, "float", n, na, "few", 0.5 if fmt != "csv" else 0.3)
            if fmt in ("csv",):
                vals = [v for v in vals]
        else:
            vals = gen.gen_values(rng, kind, n, na, "few", 0.3)
        if kind == "datetime" and fmt in ("pickle", "npz", "parquet", "csv") and rng.random() < 0.3 and all(v is None or 1700 < v.year < 2200 for v in vals):
            kind = "datetime_ns"       # the same instants held in nanoseconds (what pandas and some readers produce)
        odd = ["a b", "x,y", "col" + str(j)] + ([] if enc in ("latin-1", "cp1252") else ["日本"])
        spec.append((f"c{j}" if rng.random() < 0.8 else rng.choice(odd) + str(j), kind, vals))
    if rng.random() < (0.05 if fmt == "csv" else 0.02) and (suffix in ("", ".gz") or fmt == "csv"):
        # one very long text value (a document body, a geometry as text): beyond the csv module's field limit / a parser's block size
        strcols = [j for j, (_, k, _) in enumerate(spec) if k == "str"]
        if strcols:
            j = rng.choice(strcols)
            name, kind, vals = spec[j]
            vals = list(vals)
            vals[rng.randrange(n)] = ("long text " * 10 + "\n") * (rng.choice([140_000, 1_300_000, 2_600_000]) // 101)
            spec[j] = (name, kind, vals)
            case["huge_cell"] = True
    case["spec"] = spec
    if fmt == "json" and any(k == "date" for _, k, _ in spec):
        pass
    return case

def _colnames(n):
    """Names of the columns of a header-less file as the library documents them: a, b, ..., z, aa, bb, ... (the monitor's own enumeration)."""
    import string
    return [string.ascii_lowercase[i % 26] * (i // 26 + 1) for i in range(n)]

def _magic_ok(res, path, suffix, what):
    if not suffix:
        return
    with open(path, "rb") as f:
        head = f.read(6)
    res.count("magic-checked")
    if not head.startswith(MAGIC[suffix]):
        res.violate(f"{what}:not-compressed:{suffix}", f"{what} to a path ending in {suffix} wrote bytes starting {head!r} (expected {MAGIC[suffix]!r})")

def execute(case):
    prev = os.getcwd()
    try:
        return _execute(case)
    finally:
        os.chdir(prev)

def _execute(case):
    import dataiter as di
    fmt, suffix, opts = case["fmt"], case["suffix"], dict(case["opts"])
    scratch = os.environ.get("VERIF_SCRATCH") or "/tmp"
    d = os.path.join(scratch, f"c12_{os.getpid()}")
    os.makedirs(d, exist_ok=True)
    ext = {"pickle": ".pkl", "npz": ".npz", "parquet": ".parquet", "csv": ".csv", "json": ".json", "lod-json": ".json", "lod-csv": ".csv", "lod-pickle": ".pkl"}[fmt]
    for f in os.listdir(d):
        if os.path.isfile(os.path.join(d, f)): os.remove(os.path.join(d, f))
    sub_ = case.get("subdir")
    if sub_:
        # the file lives in a directory whose name has a meaning for some readers (key=value, dots, spaces)
        d = os.path.join(d, sub_)
        os.makedirs(d, exist_ok=True)
        for f in os.listdir(d):
            os.remove(os.path.join(d, f))
    path = os.path.join(d, "f" + ext + suffix)
    rel = case.get("relpath")
    if rel:
        # a path relative to the working directory: a bare file name, ./name, or a directory that does not exist yet
        os.chdir(d)
        path = {"bare": "f", "dot": "./f", "newdir": f"new{os.getpid()}_{len(repr(case)) % 1000}/f"}[rel] + ext + suffix
    res = Result(nontrivial=True)
    if rel: res.cls(f"path:relative-{rel}")
    res.cls(f"fmt:{fmt}", f"suffix:{suffix or 'plain'}")
    if case.get("subdir"): res.cls("path:meaningful-directory-name")
    if case.get("big"): res.cls("big-file")
    for k, v in opts.items():
        res.cls(f"opt:{k}")
    feat = f"{fmt}:{suffix or 'plain'}"
    if case.get("huge_cell"):
        res.cls("huge-cell")
        feat += ":huge-cell"
    if fmt.startswith("lod-"):
        items = case["items"]
        res.sig = f"{fmt}|{suffix}|{sorted(opts.items())}|{len(items)}"
        data = di.ListOfDicts([dict(x) for x in items])
        hist = case.get("history")
        if hist and items:
            # same-object history: write once, change the key set of the items in place, then do the judged write/read
            try:
                getattr(data, {"lod-json": "write_json", "lod-csv": "write_csv", "lod-pickle": "write_pickle"}[fmt])(path + ".first", **({} if fmt == "lod-pickle" else opts))
                data.keys(); list(data.keys())
            except Exception:
                pass
            if hist == "add":
                for it in list.__iter__(data): it["zz_added"] = "v"
                items = [dict(x, zz_added="v") for x in items]
            elif hist == "delete":
                k0 = list(items[0])[0] if items[0] else None
                if k0 is not None and all(k0 in x for x in items) and len(items[0]) > 1:
                    for it in list.__iter__(data): del it[k0]
                    items = [{k: v for k, v in x.items() if k != k0} for x in items]
            else:
                extra = dict(items[-1])
                list.append(data, di.ListOfDicts([extra])[0])
                items = items + [extra]
            res.cls("lod-history")
        try:
            if fmt == "lod-json":
                data.write_json(path, **opts)
                _magic_ok(res, path, suffix, "ListOfDicts.write_json")
                back = di.ListOfDicts.read_json(path, **opts)
            elif fmt == "lod-csv":
                data.write_csv(path, **opts)
                _magic_ok(res, path, suffix, "ListOfDicts.write_csv")
                back = di.ListOfDicts.read_csv(path, **opts)
            else:
                data.write_pickle(path)
                _magic_ok(res, path, suffix, "ListOfDicts.write_pickle")
                back = di.ListOfDicts.read_pickle(path)
        except Exception as e:
            res.violate(f"roundtrip:raised:{exc_name(e)}:{fmt}:{'compressed' if suffix else 'plain'}", f"{fmt}{suffix} {opts} raised {e!r}; items {canon.short(items, 600)}")
            return res.dict()
        got = [dict(x) for x in list.__iter__(back)]
        exp = [dict(x) for x in items]
        if fmt == "lod-csv":
            # a CSV file has one column order for all rows (keys in first-seen order): each value stays under its own key, whatever
            # order the keys were inserted into an individual item
            allk = []
            for x in exp:
                for k in x:
                    if k not in allk: allk.append(k)
            exp = [{k: x[k] for k in allk if k in x} for x in exp]
            if opts.get("header") is False:
                names = _colnames(len(allk))
                exp = [{nm: x[k] for nm, k in zip(names, allk)} for x in exp]
        import re as _re
        bare_cr = fmt == "lod-csv" and any(isinstance(v, str) and _re.search(r"\r(?!\n)", v) for x in items for v in x.values())
        if bare_cr: res.cls("lod-csv:bare-carriage-return")
        if bare_cr and (got != exp):
            # mechanism key of the recorded finding (known_findings.json): csv.writer with QUOTE_MINIMAL does not quote a bare CR before Python 3.13
            res.violate("roundtrip:lod-csv:bare-carriage-return", f"{fmt}{suffix} {opts}: read back {canon.short(got, 500)} expected {canon.short(exp, 500)}")
        elif not isinstance(back, di.ListOfDicts) or got != exp or [list(g) for g in got] != [list(e) for e in exp]:
            res.violate(f"roundtrip:items-differ:{feat}", f"{fmt}{suffix} {opts}: read back {canon.short(got, 700)} expected {canon.short(exp, 700)}")
        res.count("roundtrips")
        return res.dict()
    spec = case["spec"]
    res.sig = f"{fmt}|{suffix}|{sorted(opts.items())}|{gen.spec_sig(spec)}"
    df = gen.build_frame(spec)
    pre = canon.frame_cells(df)
    pre_kinds = {k: canon.dtype_kind(v) for k, v in dict.items(df)}
    if any(k in ("str", "ustr") and vals[0] is None for _, k, vals in spec):
        res.cls("string-na-first")
    read_kw = {}
    try:
        if fmt == "pickle":
            df.write_pickle(path)
            _magic_ok(res, path, suffix, "write_pickle")
            back = di.DataFrame.read_pickle(path)
        elif fmt == "npz":
            df.write_npz(path, **opts)
            back = di.DataFrame.read_npz(path)
        elif fmt == "parquet":
            df.write_parquet(path, **opts)
            back = di.DataFrame.read_parquet(path)
        elif fmt == "csv":
            df.write_csv(path, **opts)
            _magic_ok(res, path, suffix, "write_csv")
            back = di.DataFrame.read_csv(path, **opts)
        else:
            df.write_json(path, **opts)
            _magic_ok(res, path, suffix, "write_json")
            back = di.DataFrame.read_json(path, **opts)
    except Exception as e:
        res.violate(f"roundtrip:raised:{exc_name(e)}:{fmt}:{'compressed' if suffix else 'plain'}", f"{fmt}{suffix} {opts} raised {e!r}; spec {canon.short(spec, 800)}")
        return res.dict()
    post = canon.frame_cells(back)
    names = list(pre)
    if fmt == "csv" and opts.get("header") is False:
        names_exp = _colnames(len(names))
    else:
        names_exp = names
    ctx = f"{fmt}{suffix} {opts}: spec {canon.short(spec, 900)}; read back {canon.short(post, 700)}"
    if list(post) != names_exp:
        res.violate(f"roundtrip:names-differ:{feat}", f"columns {list(post)} expected {names_exp}; {ctx}")
        return res.dict()
    for n0, n1 in zip(names, names_exp):
        if not canon.cells_eq(post[n1], pre[n0], widen=fmt in ("csv", "json")):
            d_ = canon.first_diff(post[n1], pre[n0], widen=fmt in ("csv", "json"))
            kind = "na-positions" if isinstance(d_[0], int) and (d_[1] == canon.NA or d_[2] == canon.NA) else "values"
            col_vals = [s_[2] for s_ in spec if s_[0] == n0][0]
            if fmt == "csv" and pre_kinds[n0] == "datetime" and any(isinstance(v, datetime.datetime) and not (1678 <= v.year <= 2261) for v in col_vals):
                # one mechanism key whatever the suffix / options (repaired in /repo, see known_findings.json 'fixed')
                res.violate("roundtrip:csv:datetime-outside-nanosecond-range", f"column {n0}: {d_}; {ctx}")
                return res.dict()
            res.violate(f"roundtrip:{kind}-differ:{feat}:{pre_kinds[n0]}", f"column {n0}: {d_}; {ctx}")
            return res.dict()
        if fmt in ("pickle", "npz", "parquet"):
            k0, k1 = pre_kinds[n0], canon.dtype_kind(dict.__getitem__(back, n1))
            exact = fmt in ("pickle", "npz")
            if exact:
                same = np.asarray(dict.__getitem__(back, n1)).dtype == np.asarray(dict.__getitem__(df, n0)).dtype
            else:
                same = k0 == k1 if k0 in ("bool", "int", "float", "string", "date", "datetime") else True
                if k0 == "datetime" and k1 == "datetime": same = True
            if same and fmt == "parquet" and [s_[1] for s_ in spec if s_[0] == n0][0] in ("int32", "float32"):
                d0_, d1_ = np.asarray(dict.__getitem__(df, n0)).dtype, np.asarray(dict.__getitem__(back, n1)).dtype
                if d0_ != d1_ and d1_ in (np.dtype("int64"), np.dtype("float64")):
                    # mechanism key of a recorded finding (known_findings.json)
                    res.violate("parquet:dtype-widened:narrow-numeric-column", f"column {n0}: {d0_} came back {d1_}; {ctx}")
                    return res.dict()
            sk = [s_[1] for s_ in spec if s_[0] == n0][0]
            if same and fmt == "parquet" and sk in ("int", "float", "bool", "uint64", "uint32"):
                # these column types have an exact Parquet counterpart: the dtype itself must come back, signedness and width included
                d0_, d1_ = np.asarray(dict.__getitem__(df, n0)).dtype, np.asarray(dict.__getitem__(back, n1)).dtype
                if d0_ != d1_:
                    res.violate(f"roundtrip:dtype-differs:parquet:{sk}", f"column {n0}: dtype {d0_} came back as {d1_}; {ctx}")
                    return res.dict()
            if not same:
                feat2 = "string-with-na" if k0 == "string" and any(c == canon.NA for c in pre[n0]) else k0
                res.violate(f"roundtrip:dtype-differs:{fmt}:{feat2}", f"column {n0}: dtype {np.asarray(dict.__getitem__(df, n0)).dtype} came back as {np.asarray(dict.__getitem__(back, n1)).dtype}; {ctx}")
                return res.dict()
    if canon.frame_cells(df) != pre:
        res.violate(f"write:mutated-input:{fmt}", ctx)
    res.count("roundtrips")
    res.observed = {"bytes": os.path.getsize(path) if os.path.exists(path) else None}
    return res.dict()
