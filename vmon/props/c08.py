# -*- coding: utf-8 -*-
"""
C08 - Numba acceleration never changes aggregation results, whatever was
compiled before, in this process or in an earlier one sharing the JIT cache.

Differential monitor over *process histories*: every scenario is a chain of
fresh interpreters (vmon/numba_child.py) sharing one NUMBA_CACHE_DIR. A child
first executes its "prefix" (first uses of helpers, in order, Numba on), then
evaluates its probes under USE_NUMBA True and False on identical frames and
reports every disagreement in values / NA positions / result type, together
with which implementation was actually selected.
"""

import collections
import concurrent.futures
import itertools
import json
import os
import random
import shutil
import subprocess
import sys
import tempfile
import time

from vmon import runner

ID = "C08"
LEVEL = "exploration"
RULE = ("scenarios = chains of fresh interpreter processes sharing one Numba cache directory; each process runs an ordered "
        "prefix of first uses (helper, args, dtype) with Numba on, then evaluates probe helpers on a fixed battery of 3 group "
        "layouts (mixed, default-yielding all-missing group, one big group) and on generated frames under USE_NUMBA True and "
        "False; quick: all ordered pairs over one representative per kernel family on float64 + dtype diagonal + cache-lineage "
        "chains + cache-off + 2 random-input children; thorough: all ordered pairs over 17 helper variants x 5 dtypes, random "
        "sequences of length 3-6, longer chains, NUMBA_BOUNDSCHECK. non-trivial = a probe evaluated after >= 1 other first use "
        "or from a cache written by an earlier process; distinct = distinct (history of first uses incl. earlier processes, probe "
        "helper+args, dtype) triples")
ASSUMPTIONS = [
    "agreement = equal NA positions, values equal within rel 1e-9 / abs 1e-9*max|x|, same result dtype family",
    "a record is judged only if the Numba implementation was actually selected for the Numba-on evaluation (observed by wrapping dataiter.aggregate.use_numba)",
    "histories explored are bounded: ordered pairs, sampled sequences up to length 6, cache chains up to 3 processes",
]

FAM = [("max", {}), ("mean", {}), ("nth", {"index": 1}), ("mode", {}), ("count_unique", {}), ("quantile", {"q": 0.25})]
VARIANTS = [("all", {}), ("any", {}), ("count", {}), ("count_unique", {}), ("first", {}), ("last", {"drop_na": True}), ("nth", {"index": -2}),
            ("min", {}), ("max", {}), ("max", {"drop_na": False}), ("mode", {}), ("mean", {}), ("median", {}), ("quantile", {"q": 0.9}), ("quantile", {"q": 0.5}),
            ("std", {}), ("var", {}), ("sum", {})]
KINDS = ["floatna", "int", "bool", "date", "datetime"]
NUMERIC_ONLY = {"mean", "median", "quantile", "std", "var", "sum"}

def ok_combo(helper, kind):
    if helper in NUMERIC_ONLY and kind in ("date", "datetime"):
        return False
    if helper in ("all", "any") and kind in ("date", "datetime"):
        return False
    return True

def scenarios(tier, seed):
    rng = random.Random(seed)
    sc = []
    def one(name, prefix, probes, env=None, rnd=None):
        return {"name": name, "chain": [{"prefix": prefix, "probes": probes, "env": env or {}, "random": rnd}]}
    # 1. ordered pairs over kernel-family representatives, float64 with NaN
    for (a, akw), (b, bkw) in itertools.product(FAM, FAM):
        if (a, akw) == (b, bkw):
            continue
        sc.append(one(f"pair:{a}->{b}:floatna", [[a, akw, "floatna"]], [[b, bkw, "floatna"], [a, akw, "floatna"]]))
    # 2. diagonal over other dtypes
    for kind in ["bool", "int", "date", "datetime", "float"]:
        for (a, akw), (b, bkw) in [(("max", {}), ("first", {})), (("min", {}), ("mode", {})), (("first", {}), ("max", {})), (("mode", {}), ("min", {})),
                                   (("max", {"drop_na": False}), ("nth", {"index": 5}))]:
            sc.append(one(f"pair:{a}->{b}:{kind}", [[a, akw, kind]], [[b, bkw, kind], [a, akw, kind]]))
    # 3. cache lineage chains
    for kind in ["floatna", "int", "date"]:
        sc.append({"name": f"chain:max,first|first,mode,max:{kind}", "chain": [
            {"prefix": [["max", {}, kind], ["first", {}, kind]], "probes": [], "env": {}},
            {"prefix": [], "probes": [["first", {}, kind], ["mode", {}, kind], ["max", {}, kind]], "env": {}}]})
        sc.append({"name": f"chain:first|max->first,nth:{kind}", "chain": [
            {"prefix": [["first", {}, kind]], "probes": [["first", {}, kind]], "env": {}},
            {"prefix": [["max", {}, kind]], "probes": [["first", {}, kind], ["nth", {"index": -2}, kind]], "env": {}}]})
        sc.append({"name": f"chain:mode|min|mode,last:{kind}", "chain": [
            {"prefix": [["mode", {}, kind]], "probes": [], "env": {}},
            {"prefix": [["min", {}, kind]], "probes": [], "env": {}},
            {"prefix": [], "probes": [["mode", {}, kind], ["last", {}, kind], ["min", {}, kind]], "env": {}}]})
    # 4. cache switched off
    for kind in ["floatna", "int"]:
        sc.append(one(f"nocache:max->first,mode:{kind}", [["max", {}, kind]], [["first", {}, kind], ["mode", {}, kind]],
                      env={"DATAITER_USE_NUMBA_CACHE": "false"}))
    # 5. input diversity after a mixed prefix
    sc.append(one("random:float,int", [["max", {}, "floatna"], ["first", {}, "int"]], [], rnd={"seed": seed * 7 + 1, "n": 150 if tier == "quick" else 1500, "kinds": ["float", "int"]}))
    sc.append(one("random:bool,date,datetime", [["min", {}, "date"]], [], rnd={"seed": seed * 7 + 2, "n": 150 if tier == "quick" else 1500, "kinds": ["bool", "date", "datetime"]}))
    # 6. missing values kept (drop_na=False) and dropped (drop_na=True) for every helper that takes the argument
    for kind in ["floatna", "date", "datetime"]:
        for flag in (False, True):
            probes = [[h, dict(kw, drop_na=flag), kind] for h, kw in VARIANTS if h not in ("all", "any") and "drop_na" not in kw and ok_combo(h, kind)]
            sc.append(one(f"drop_na={flag}:{kind}", [], probes))
    # 7. ddof variants (Python-only in the reference implementation) and several helpers in one aggregate() call
    for kind in ["floatna", "float", "int", "date"]:
        multi = [["median", {"drop_na": False}], ["first", {}], ["last", {}], ["nth", {"index": 1}], ["mode", {}], ["max", {}], ["count_unique", {}]]
        if kind == "date":
            multi = [m for m in multi if m[0] != "median"] + [["min", {"drop_na": False}]]
        probes = [["multi", {"helpers": multi}, kind], ["multi", {"helpers": multi[::-1]}, kind]]
        if kind != "date":
            probes += [["std", {"ddof": 1}, kind], ["var", {"ddof": 1}, kind], ["std", {"ddof": 2}, kind]]
        sc.append(one(f"multi+ddof:{kind}", [], probes))
    # 8. the other members of the accelerated dtype families: narrower integers / floats, other datetime units
    for kind in ["int32", "uint8", "int16", "uint64", "float32", "datetime_s", "datetime_ms", "datetime_ns", "int_be", "float_be", "datetime_be", "date_be"]:
        probes = [[h, kw, kind] for h, kw in VARIANTS if ok_combo(h, "datetime" if kind.startswith("date") else "int")]
        sc.append(one(f"narrow:{kind}", [], probes))
    # 9. ONE helper object applied to columns of different dtypes in turn (a kept dict of summaries): nothing learnt from an earlier column may leak
    for order in (["floatna", "date", "datetime_s", "int", "floatna"], ["date", "floatna", "datetime", "bool", "date"], ["int", "bool", "int", "float"], ["bool", "int", "floatna", "bool"]):
        probes = [[h, kw, kind] for h, kw in (("min", {}), ("max", {}), ("mode", {}), ("first", {"drop_na": True}), ("nth", {"index": 0, "drop_na": True})) for kind in order]
        sc.append(one(f"reused-helper:{order[0]}-first", [], probes))
    if tier == "thorough":
        for kind in KINDS:
            for (a, akw), (b, bkw) in itertools.permutations(VARIANTS, 2):
                if ok_combo(a, kind) and ok_combo(b, kind):
                    sc.append(one(f"pair:{a}{akw}->{b}{bkw}:{kind}", [[a, akw, kind]], [[b, bkw, kind]]))
        for i in range(300):
            kind = rng.choice(KINDS)
            seq = [v for v in rng.sample(VARIANTS, rng.randint(3, 6)) if ok_combo(v[0], kind)]
            prefix = [[h, kw, kind if rng.random() < 0.8 else rng.choice(["floatna", "int"])] for h, kw in seq]
            probes = [[h, kw, kind] for h, kw in seq[::-1]]
            sc.append(one(f"seq{i}:{'>'.join(h for h, _ in seq)}:{kind}", prefix, probes))
        for i in range(40):
            kind = rng.choice(KINDS)
            vs = [v for v in VARIANTS if ok_combo(v[0], kind)]
            a, b, c = rng.sample(vs, 3)
            sc.append({"name": f"chain3:{i}:{a[0]}|{b[0]}|{c[0]}:{kind}", "chain": [
                {"prefix": [[a[0], a[1], kind]], "probes": [], "env": {}},
                {"prefix": [[b[0], b[1], kind]], "probes": [[a[0], a[1], kind]], "env": {}},
                {"prefix": [], "probes": [[c[0], c[1], kind], [a[0], a[1], kind], [b[0], b[1], kind]], "env": {}}]})
        for kind in ["floatna", "int", "date"]:
            sc.append(one(f"boundscheck:{kind}", [["max", {}, kind]], [[h, kw, kind] for h, kw in VARIANTS if ok_combo(h, kind)], env={"NUMBA_BOUNDSCHECK": "1"}))
    return sc

def run_chain(sc, scratch, idx, timeout=600):
    """Run one scenario chain in its own cache dir. Returns list of child outputs (dicts) or error markers."""
    cache = os.path.join(scratch, f"cache{idx}")
    os.makedirs(cache, exist_ok=True)
    outs = []
    for step in sc["chain"]:
        env = runner.child_env(scratch)
        env["NUMBA_CACHE_DIR"] = cache
        env.update(step.get("env") or {})
        arg = json.dumps({"prefix": step["prefix"], "probes": step["probes"], "random": step.get("random")})
        try:
            p = subprocess.run([runner.PY, "-m", "vmon.numba_child", arg], env=env, cwd=scratch, capture_output=True, text=True, timeout=timeout)
        except subprocess.TimeoutExpired:
            outs.append({"timeout": True})
            break
        doc = None
        for line in p.stdout.splitlines():
            if line.startswith("CHILD-JSON:"):
                doc = json.loads(line[len("CHILD-JSON:"):])
        if doc is None:
            outs.append({"crash": p.returncode, "stderr": p.stderr[-1500:], "stdout": p.stdout[-500:]})
            break
        outs.append(doc)
    shutil.rmtree(cache, ignore_errors=True)
    return outs

def judge(sc, outs):
    """-> (violations, stats)"""
    viol = []
    st = collections.Counter()
    history = []
    for step, doc in zip(sc["chain"], outs):
        if "timeout" in doc:
            st["timeouts"] += 1
            continue
        if "crash" in doc:
            if doc["crash"] < 0:
                viol.append({"key": "numba-child-died-signal", "msg": f"child died with signal {-doc['crash']} in scenario {sc['name']}: {doc['stderr'][-600:]}"})
            else:
                st["child-errors"] += 1
                st["last-error"] = 0
                viol.append({"key": "harness", "msg": f"child exited {doc['crash']}: {doc['stderr'][-800:]}"})
            continue
        if not doc.get("use_numba_at_import"):
            st["numba-unavailable"] += 1
            continue
        st["children"] += 1
        st["records"] += doc["records"]
        st["numba_selected"] += doc["numba_selected"]
        st["python_selected_under_on"] += doc["python_selected_under_on"]
        d = doc.get("dispatchers", {})
        st["dispatcher_cache_hits"] += sum(v.get("hits", 0) for v in d.values() if isinstance(v, dict))
        st["dispatcher_compiles"] += sum(v.get("misses", 0) for v in d.values() if isinstance(v, dict))
        for e in doc.get("errors", []):
            viol.append({"key": f"numba-prefix-raised:{e['helper']}:{e['kind']}", "msg": f"{sc['name']}: prefix step raised {e['error']}"})
        for dis in doc["disagreements"]:
            viol.append({"key": f"numba-disagrees:{dis['helper']}:{dis['diff']}" + (":inf-in-column" if dis.get("inf") else ""),
                         "msg": f"scenario {sc['name']} (history {history + step['prefix']}): {dis['helper']}{dis['kw']} on {dis['kind']} [{dis['tag']}]: "
                                f"numba {dis['on']} vs python {dis['off']}; frame {dis['spec']}"})
        history = history + step["prefix"]
    return viol, st

def execute(case):
    """Replay entry: case = scenario dict."""
    scratch = tempfile.mkdtemp(prefix="verif_C08r_")
    try:
        outs = run_chain(case, scratch, 0)
        viol, st = judge(case, outs)
        return {"violations": [v for v in viol if v["key"] != "harness"], "sig": case["name"], "nontrivial": True}
    finally:
        shutil.rmtree(scratch, ignore_errors=True)

def custom_main(a, seed):
    t0 = time.time()
    tier = a.tier
    sc = scenarios(tier, seed)
    if a.cases:
        sc = sc[:a.cases]
    scratch = tempfile.mkdtemp(prefix="verif_C08_")
    known = runner.load_known(ID)
    try:
        nthreads = a.workers or min(16, os.cpu_count() or 4)
        with concurrent.futures.ThreadPoolExecutor(nthreads) as ex:
            futs = {ex.submit(run_chain, s, scratch, i): (i, s) for i, s in enumerate(sc)}
            results = {}
            for f in concurrent.futures.as_completed(futs):
                i, s = futs[f]
                try:
                    results[i] = f.result()
                except Exception as e:
                    results[i] = [{"crash": 99, "stderr": repr(e), "stdout": ""}]
    finally:
        shutil.rmtree(scratch, ignore_errors=True)
    total = collections.Counter()
    by_key = collections.OrderedDict()
    distinct = set()
    samples = []
    harness = []
    for i, s in enumerate(sc):
        viol, st = judge(s, results[i])
        total.update(st)
        hist = []
        for step in s["chain"]:
            for pr in step["probes"]:
                if hist or step["prefix"]:
                    distinct.add((json.dumps(hist + step["prefix"]), json.dumps(pr)))
            if step.get("random"):
                distinct.add((json.dumps(hist + step["prefix"]), "random"))
            hist = hist + step["prefix"]
        for v in viol:
            if v["key"] == "harness":
                harness.append(v["msg"])
            else:
                by_key.setdefault(v["key"], []).append((s, v))
        if len(samples) < 4 and i % max(1, len(sc) // 4) == 0:
            doc = next((d for d in results[i][::-1] if "evals" in d), None)
            samples.append({"scenario": s["name"], "chain": s["chain"], "evals(tag,helper,kind,numba_selected,diff)": doc["evals"][:8] if doc else None,
                            "dispatchers": doc.get("dispatchers") if doc else None})
    lines = []
    code = 0
    unlisted = []
    reproduced = {}
    n = 0
    for key, items in by_key.items():
        if key in known:
            reproduced[key] = len(items)
            lines.append(f"KNOWN-FINDING: property={ID} {key}: {known[key]} (reproduced {len(items)}x)")
            continue
        s, v = items[0]
        rec = {"i": n, "case": runner.b64(s), "case_repr": json.dumps(s)[:3000], "violations": [v]}
        path = runner.write_replay(ID, key, rec, seed, n)
        n += 1
        print(f"violation {key}: {v['msg'][:1500]}  ({len(items)} records)")
        lines.append(f"VIOLATION property={ID} replay={path}")
        unlisted.append(key)
        code = 1
    inconclusive = []
    if code == 0:
        if harness:
            inconclusive.append(f"{len(harness)} child errors, first: {harness[0][:1200]}")
        if total["numba-unavailable"]:
            inconclusive.append("Numba not available in children: comparison would be Python vs Python")
        if total["timeouts"]:
            inconclusive.append(f"{total['timeouts']} children hit the watchdog")
        if total["records"] == 0 or total["numba_selected"] < 0.5 * total["records"]:
            inconclusive.append(f"Numba kernel selected for {total['numba_selected']} of {total['records']} judged records")
        if total["dispatcher_cache_hits"] == 0:
            inconclusive.append("no kernel was ever loaded from an earlier process's cache")
        if inconclusive:
            code = 2
            lines.append(f"INCONCLUSIVE property={ID} " + " | ".join(inconclusive)[:3000])
    wall = time.time() - t0
    head, dirty = runner.repo_state()
    if not a.no_evidence:
        ev = {"property_id": ID, "tier": tier, "seed": seed, "level": LEVEL,
              "coverage": {"evaluations": int(total["records"]), "distinct_nontrivial": len(distinct), "rule": RULE, "samples": samples,
                           "scenarios": len(sc), "child_processes": int(total["children"]),
                           "records_with_numba_kernel_selected": int(total["numba_selected"]),
                           "kernels_compiled_in_process": int(total["dispatcher_compiles"]),
                           "kernels_loaded_from_earlier_process_cache": int(total["dispatcher_cache_hits"]),
                           "known_findings_reproduced": reproduced, "unlisted_violation_keys": unlisted,
                           "repo_head": head, "repo_dirty": dirty, "inconclusive": inconclusive,
                           "verdict": {0: "held-on-observed", 1: "violated", 2: "inconclusive"}[code]},
              "assumptions": ASSUMPTIONS, "wall_s": round(wall, 2), "violations": len(unlisted)}
        os.makedirs(os.path.join(runner.VERIF, "evidence"), exist_ok=True)
        json.dump(ev, open(os.path.join(runner.VERIF, "evidence", f"{ID}.json"), "w"), indent=1, default=str)
    print(f"[{ID}] tier={tier} seed={seed} scenarios={len(sc)} children={total['children']} records={total['records']} "
          f"numba_selected={total['numba_selected']} cache_hits={total['dispatcher_cache_hits']} compiles={total['dispatcher_compiles']} "
          f"distinct={len(distinct)} violation_keys={len(unlisted)} wall={wall:.1f}s")
    for l in lines:
        print(l)
    return code
