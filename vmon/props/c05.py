# -*- coding: utf-8 -*-
"""
C05 - joins follow first-match relational semantics and never lose rows.

Oracle: nested-loop reference join over canonical key tuples (a key with a
missing cell never matches), first match by right position. Left and right
frames carry id columns `_lid_` / `_rid_`, so an output row names the input
rows it was assembled from.
"""

from vmon import canon, gen
from vmon.res import Result, exc_name

ID = "C05"
LEVEL = "exploration"
CASES = {"quick": 12000, "thorough": 1250000}
RULE = ("seeded random pairs of frames (0..40 rows each, id column + 1-3 key columns + 0-3 payload columns of every dtype) "
        "with duplicate and missing keys on both sides, disjoint key sets, empty sides, same-name and (left,right) renamed keys, "
        "int-vs-float keys, name clashes x {left,inner,semi,anti,full}_join; non-trivial = both sides non-empty; distinct = "
        "distinct (join kind, key kinds, renamed?, row-count classes, NA-key presence, match class) signatures")
ASSUMPTIONS = [
    "two key cells are equal iff both non-missing and == (1 == 1.0, 0.0 == -0.0); a key tuple containing a missing cell matches nothing",
    "row order of full_join and dtypes of filled columns are not asserted, only that filled cells read as missing",
    "on a name clash between left and right non-key columns the left column is kept unchanged (nothing is asserted about the right one)",
]
REACH = {"quick": {"join:left_join": 1000, "join:full_join": 1000, "join:semi_join": 1000, "empty-left": 100, "empty-right": 100,
                   "no-match": 200, "na-key-left": 500, "na-key-right": 500, "dup-right": 1000, "renamed": 1000, "after-inplace-edit": 500}}

JOINS = ["left_join", "inner_join", "semi_join", "anti_join", "full_join"]
KEY_KINDS = ["int", "int", "str", "str", "float", "date", "bool", "lstr", "datetime", "obool", "ustr", "timedelta", "uint64", "int_be", "datetime_be", "datetime_ns"]

def generate(rng, tier):
    tags = set()
    nl = gen.gen_nrow(rng)
    nr = gen.gen_nrow(rng)
    r0 = rng.random()
    if r0 < 0.003:
        nl, nr = rng.choice([3, 40]), rng.choice([600, 3000])      # a right frame far longer than the left one
        tags.add("big")
    elif r0 < 0.005:
        nl, nr = rng.choice([1200, 10100]), rng.choice([5, 50])
        tags.add("big")
    nkey = rng.choice([1, 1, 1, 2, 2, 3])
    lspec = [("_lid_", "int", list(range(nl)))]
    rspec = [("_rid_", "int", list(range(nr)))]
    by = []
    disjoint = rng.random() < 0.12
    for j in range(nkey):
        kind = rng.choice(KEY_KINDS)
        rkind = kind
        if kind == "int" and rng.random() < 0.15:
            rkind = "float"
        if kind == "datetime" and rng.random() < 0.35:
            rkind = rng.choice(["datetime_ns", "datetime_ns", "datetime_ms"])      # the same instants held in another unit on the right side
            tags.add("datetime-units-differ")
        if kind == "timedelta" and rng.random() < 0.4:
            kind, rkind = "timedelta_ms", "timedelta"          # whole-millisecond durations: milliseconds on the left, microseconds on the right
            tags.add("datetime-units-differ")
        if kind == "date" and rng.random() < 0.25:
            rkind = "datetime"          # dates against datetimes (at midnight)
            tags.add("datetime-units-differ")
        if kind in ("str", "ustr") and rng.random() < 0.3:
            # the same strings held differently on the two sides: the library's string type, NumPy's fixed-width one, an object column of str
            rkind = rng.choice([k for k in ("str", "ustr", "ostr") if k != kind])
            tags.add("string-kinds-differ")
        p = gen.pool(rng, kind, 0.15 if rkind == kind else 0.0, tags)
        rng.shuffle(p)
        k = rng.randint(1, min(4, len(p)))
        lp = p[:k]
        rp = p[k:2 * k] if disjoint and len(p) >= 2 * k else p[:max(1, k - rng.randint(0, 1))]
        na_l = rng.choice([0, 0, 0.15, 0.3]) if kind in gen.NA_CAPABLE else 0
        na_r = rng.choice([0, 0, 0.15, 0.3, 1.0 if rng.random() < 0.1 else 0]) if rkind in gen.NA_CAPABLE else 0
        lv = [None if rng.random() < na_l else rng.choice(lp) for _ in range(nl)]
        rv = [None if rng.random() < na_r else rng.choice(rp) for _ in range(nr)]
        if rkind == "float" and kind == "int":
            rv = [None if v is None else float(v) for v in rv]
        if rkind == "datetime" and kind == "date":
            import datetime as _dt
            # midnight of the same day is the same instant; a time of day on the finer side is another key, which matches nothing
            tod = rng.random() < 0.5
            rv = [None if v is None else _dt.datetime(v.year, v.month, v.day, *((12, 30) if tod and rng.random() < 0.4 else ())) for v in rv]
        if rkind == "datetime_ms":
            if rng.random() < 0.5:
                lv = [None if v is None else v.replace(microsecond=(v.microsecond // 1000) * 1000) for v in lv]      # (else: microseconds the coarser side cannot hold)
            rv = [None if v is None else v.replace(microsecond=(v.microsecond // 1000) * 1000) for v in rv]
        if kind == "timedelta_ms" and rkind == "timedelta" and rng.random() < 0.5:
            import datetime as _dt
            rv = [v if v is None or rng.random() < 0.6 else v + _dt.timedelta(microseconds=1) for v in rv]        # durations the coarser side cannot hold
        lname = f"k{j}"
        rname = lname if rng.random() < 0.6 else f"r{j}"
        if j == 0 and rng.random() < 0.04:
            rname = rng.choice(["_index_", "_i_", "index", "_id_"])       # a key column named like a temporary column a library might use internally
            tags.add("internal-looking-key-name")
        lspec.append((lname, kind, lv))
        rspec.append((rname, rkind, rv))
        by.append(lname if lname == rname else rng.choice([(lname, rname), [lname, rname]]))     # tuple or list form
        if lname != rname and rng.random() < 0.08:
            # the same LEFT column paired with two right columns: left.k == right.r and left.k == right.rb
            rv2 = [v if rng.random() < 0.7 else rng.choice(rp + [v]) for v in rv]
            rspec.append((f"r{j}b", rkind, rv2))
            by.append((lname, f"r{j}b"))
            tags.add("left-column-in-two-pairs")
    for j in range(rng.randint(0, 2)):
        kind = rng.choice(gen.KINDS_KEY)
        lspec.append((f"lp{j}", kind, gen.gen_values(rng, kind, nl, rng.choice(gen.NA_PATTERNS), "few", 0.2, tags)))
    for j in range(rng.randint(0, 3)):
        kind = rng.choice(gen.KINDS_KEY + ["obj", "int32", "float32", "uint64", "timedelta", "complex"])
        name = f"rp{j}" if rng.random() < 0.9 else "lp0"
        if any(s[0] == name for s in rspec): continue
        rspec.append((name, kind, gen.gen_values(rng, kind, nr, rng.choice(gen.NA_PATTERNS), "few", 0.2, tags)))
    join = rng.choice(JOINS)
    if join == "full_join":
        # (stacking a string column on an object column of str is a matter of C09's promotable kinds: '' is a value in an object column)
        rspec = [(n_, "str" if k_ == "ostr" else k_, v_) for n_, k_, v_ in rspec]
    if join == "full_join" and "left-column-in-two-pairs" in tags:
        # which of two differing right values a right-only row shows under the one left name is not defined: not generated for full_join
        import re as _re
        extra = {b[1] for b in by if not isinstance(b, str) and _re.fullmatch(r"r\d+b", b[1])}
        by = [b for b in by if isinstance(b, str) or b[1] not in extra]
        rspec = [s_ for s_ in rspec if s_[0] not in extra]
        tags.discard("left-column-in-two-pairs")
    ren = [b for b in by if not isinstance(b, str)]
    if ren and rng.random() < 0.3 and not any(s_[0] == ren[0][0] for s_ in rspec):
        # the right frame has a column of its own that is called like the left key of a (left, right) renamed pair
        kind = rng.choice(["int", "str", "float"])
        rspec.append((ren[0][0], kind, gen.gen_values(rng, kind, nr, "none", "few", 0.0)))
    if join == "full_join":
        # a non-key name present on both sides: what full_join shows under it is unspecified -> not generated
        lnames = {s[0] for s in lspec}
        keynames = {b if isinstance(b, str) else b[0] for b in by}
        rspec = [(("rx_" + n) if (n in lnames and n not in keynames) else n, k, v) for n, k, v in rspec]
    if rng.random() < 0.3:
        rest = rspec[1:]
        rng.shuffle(rest)
        rspec = [rspec[0]] + rest
    rng.shuffle(by)
    if rng.random() < 0.3:
        # an empty side that was made from empty lists -- DataFrame(k=[], v=[]) -- has float columns whatever the other side's keys are
        if nr == 0: rspec = [(n_, "float" if n_ != "_rid_" else k_, v_) for n_, k_, v_ in rspec]; tags.add("empty-side-of-float-columns")
        if nl == 0: lspec = [(n_, "float" if n_ != "_lid_" else k_, v_) for n_, k_, v_ in lspec]; tags.add("empty-side-of-float-columns")
    case = {"join": join, "left": lspec, "right": rspec, "by": by, "tags": sorted(tags)}
    if rng.random() < 0.25:
        side = rng.choice(["right", "right", "left"])
        spec_ = rspec if side == "right" else lspec
        cands = [(n, k, v) for n, k, v in spec_ if k in ("int", "float", "str", "date", "bool") and len(v) and n not in ("_lid_", "_rid_")]
        if cands:
            n, k, v = rng.choice(cands)
            newv = rng.choice([x for x in v if x is not None] + gen.pool(rng, k, 0.0)[:3])
            case["edit"] = (side, n, rng.randrange(len(v)), newv, k)
    return case

def _key(cells, names, i):
    k = tuple(cells[n][i] for n in names)
    return None if any(c == canon.NA for c in k) else tuple(c[1] if c[0] == "N" else c for c in k)

def execute(case):
    r = _execute(case, None)
    ed = case.get("edit")
    if r["violations"] or not ed:
        return r
    # history clause: join once, assign one cell of the right (or left) frame in place, join again by the same keys
    r2 = _execute(case, ed)
    r["classes"] = r["classes"] + ["after-inplace-edit"]
    r["violations"] = [{"key": "after-inplace-edit:" + x["key"], "msg": "after joining once and assigning one cell in place: " + x["msg"]} for x in r2["violations"]]
    return r

def _execute(case, edit):
    import dataiter as di
    import numpy as np
    join, lspec, rspec, by = case["join"], case["left"], case["right"], case["by"]
    nl, nr = len(lspec[0][2]), len(rspec[0][2])
    by1 = [b if isinstance(b, str) else b[0] for b in by]
    by2 = [b if isinstance(b, str) else b[1] for b in by]
    kinds = [s[1] for s in lspec if s[0] in by1]
    renamed = any(not isinstance(b, str) for b in by)
    L, R = gen.build_frame(lspec), gen.build_frame(rspec)
    self_join = join in ("semi_join", "anti_join") and not renamed and edit is None and len(repr(lspec)) % 6 == 0
    if self_join:
        # the frame joined with ITSELF (same object in both roles): semi keeps exactly the rows with complete keys, anti the others
        rspec, R, nr = lspec, L, nl
    if edit is not None:
        side, col, pos, newv, kind = edit
        try:
            for j in ("left_join", "semi_join", "anti_join", "inner_join"):
                getattr(L, j)(R, *by)
        except Exception:
            pass
        target = R if side == "right" else L
        arr = np.asarray(dict.__getitem__(target, col))
        if len(arr):
            arr[pos % len(arr)] = gen.np_column(kind, [newv])[0]
    lc, rc = canon.frame_cells(L), canon.frame_cells(R)
    lkeys = [_key(lc, by1, i) for i in range(nl)]
    rkeys = [_key(rc, by2, i) for i in range(nr)]
    first = {}
    for i, k in enumerate(rkeys):
        if k is not None and k not in first:
            first[k] = i
    match = [first.get(k, -1) if k is not None else -1 for k in lkeys]
    nmatch = sum(1 for m in match if m >= 0)
    mcls = "none" if nmatch == 0 else ("all" if nmatch == nl else "some")
    na_l, na_r = any(k is None for k in lkeys), any(k is None for k in rkeys)
    dup_r = len({k for k in rkeys if k is not None}) < len([k for k in rkeys if k is not None])
    res = Result(sig=f"{join}|{','.join(sorted(kinds))}|ren{int(renamed)}|L{gen.nrow_class(nl)}R{gen.nrow_class(nr)}|na{int(na_l)}{int(na_r)}|m:{mcls}|d{int(dup_r)}",
                 nontrivial=nl > 0 and nr > 0)
    res.cls(f"join:{join}")
    if self_join: res.cls("self-join")
    if nl == 0: res.cls("empty-left")
    if nr == 0: res.cls("empty-right")
    if nl and nr and nmatch == 0: res.cls("no-match")
    if na_l: res.cls("na-key-left")
    if na_r: res.cls("na-key-right")
    if dup_r: res.cls("dup-right")
    if renamed: res.cls("renamed")
    if nr and all(k is None for k in rkeys): res.cls("right-keys-all-missing")
    for t in case["tags"]: res.cls("tag:" + t)
    lnames = list(lc)
    rextra = [n for n in rc if n not in by2 and n not in lc]
    def fail_feats():
        f = []
        if nl == 0: f.append("empty-left")
        if nr == 0: f.append("empty-right")
        if nl and nr and nmatch == 0: f.append("no-match")
        if nr and all(k is None for k in rkeys): f.append("right-keys-all-missing")
        return "+".join(f) or "plain"
    gsel = len(repr(lspec)) % 7
    if gsel in (0, 1) and not self_join:
        # an operand that was grouped (and summarised) earlier stays marked by group_by: a join does not care
        try:
            if gsel == 0: L.group_by(by1[0]); L.aggregate(n=di.count())
            else: R.group_by(by2[0]); R.aggregate(n=di.count())
            res.cls("grouped-operand")
        except Exception:
            pass
    try:
        out = getattr(L, join)(R, *by)
    except Exception as e:
        res.violate(f"{join}:raised:{exc_name(e)}:{fail_feats()}", f"{join}(by={by}) raised {e!r}; left {canon.short(lspec, 700)} right {canon.short(rspec, 700)}")
        return res.dict()
    if canon.frame_cells(L) != lc or canon.frame_cells(R) != rc:
        res.violate(f"{join}:mutated-input", f"{join} changed an operand; left {canon.short(lspec, 500)} right {canon.short(rspec, 500)}")
    oc = canon.frame_cells(out)
    n_out = canon.frame_nrow(out)
    if any(len(v) != n_out for v in oc.values()):
        res.violate(f"{join}:ragged", str({k: len(v) for k, v in oc.items()}))
        return res.dict()
    ctx = f"by={by}; left {canon.short(lspec, 900)} right {canon.short(rspec, 900)}; got {canon.short(oc, 900)}"
    def expect_cols(names_expected):
        if list(oc) != names_expected:
            res.violate(f"{join}:wrong-columns", f"columns {list(oc)} expected {names_expected}; {ctx}")
            return False
        return True
    if join in ("left_join", "inner_join"):
        rows = list(range(nl)) if join == "left_join" else [i for i in range(nl) if match[i] >= 0]
        if expect_cols(lnames + rextra):
            for n in lnames:
                exp = [lc[n][i] for i in rows]
                if not canon.cells_eq(oc[n], exp):
                    res.violate(f"{join}:left-rows-wrong", f"left column {n}: {canon.first_diff(oc[n], exp)}; {ctx}")
                    break
            else:
                for n in rextra:
                    exp = [rc[n][match[i]] if match[i] >= 0 else canon.NA for i in rows]
                    if not canon.cells_eq(oc[n], exp, widen=True):
                        d = canon.first_diff(oc[n], exp, widen=True)
                        kind = "fill-not-missing" if isinstance(d[0], int) and d[0] < len(exp) and exp[d[0]] == canon.NA else "right-payload-wrong"
                        res.violate(f"{join}:{kind}", f"right column {n}: {d}; {ctx}")
                        break
                    # "missing values (in a type able to hold them)": the library itself has to see the filled cells as missing
                    if join == "left_join":
                        try:
                            flags = np.asarray(dict.__getitem__(out, n).is_na()).tolist()
                        except Exception as e:
                            res.violate(f"{join}:is_na-raised:{exc_name(e)}", f"is_na() of the joined column {n} raised {e!r}; {ctx}")
                            break
                        bad = [i for i, r_ in enumerate(rows) if match[r_] < 0 and not flags[i]]
                        if bad:
                            res.violate(f"{join}:fill-not-seen-as-missing-by-is_na", f"right column {n} ({np.asarray(dict.__getitem__(out, n)).dtype}): rows {bad[:5]} have no match but is_na() is False there; {ctx}")
                            break
                        res.count("fill-is_na-checked")
    elif join in ("semi_join", "anti_join"):
        rows = [i for i in range(nl) if (match[i] >= 0) == (join == "semi_join")]
        if expect_cols(lnames):
            for n in lnames:
                exp = [lc[n][i] for i in rows]
                if not canon.cells_eq(oc[n], exp):
                    got_ids = [c[1] for c in oc["_lid_"]]
                    extra = [i for i in got_ids if i not in rows]
                    kind = "matched-missing-key" if extra and all(lkeys[i] is None for i in extra if isinstance(i, int) and 0 <= i < nl) else "wrong-rows"
                    res.violate(f"{join}:{kind}", f"kept lids {got_ids} expected {rows}; {ctx}")
                    break
    else:
        if "_lid_" not in oc or "_rid_" not in oc:
            res.violate("full_join:wrong-columns", f"id columns missing: {list(oc)}; {ctx}")
            return res.dict()
        if list(oc) != lnames + rextra:
            res.violate("full_join:wrong-columns", f"columns {list(oc)} expected {lnames + rextra}; {ctx}")
            return res.dict()
        lids = [None if c == canon.NA else int(c[1]) for c in oc["_lid_"]]
        rids = [None if c == canon.NA else int(c[1]) for c in oc["_rid_"]]
        if set(range(nl)) - set(lids):
            res.violate("full_join:left-row-lost", f"left ids {sorted(set(range(nl)) - set(lids))} absent; {ctx}")
        if set(range(nr)) - set(rids):
            res.violate("full_join:right-row-lost", f"right ids {sorted(set(range(nr)) - set(rids))} absent; {ctx}")
        for o, (li, ri) in enumerate(zip(lids, rids)):
            if li is None and ri is None:
                res.violate("full_join:row-from-nowhere", f"row {o} has neither id; {ctx}")
                break
            if li is not None and ri is not None:
                if lkeys[li] is None or lkeys[li] != rkeys[ri]:
                    res.violate("full_join:paired-unequal-keys", f"row {o} pairs left {li} key {lkeys[li]} with right {ri} key {rkeys[ri]}; {ctx}")
                    break
            bad = None
            if li is not None:
                for n in lnames:
                    if not canon.cell_eq(oc[n][o], lc[n][li], widen=True):
                        bad = (n, oc[n][o], lc[n][li])
            if ri is not None and not bad:
                for n in rextra:
                    if not canon.cell_eq(oc[n][o], rc[n][ri], widen=True):
                        bad = (n, oc[n][o], rc[n][ri])
                if li is None:
                    for n1, n2 in zip(by1, by2):
                        if not canon.cell_eq(oc[n1][o], rc[n2][ri], widen=True):
                            bad = (n1, oc[n1][o], rc[n2][ri])
            if bad:
                res.violate("full_join:row-torn", f"row {o} (lid {li}, rid {ri}) column {bad[0]}: got {bad[1]} expected {bad[2]}; {ctx}")
                break
    res.count("rows-checked", n_out)
    res.observed = {"nl": nl, "nr": nr, "matched": nmatch, "out": n_out}
    return res.dict()
