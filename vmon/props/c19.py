# -*- coding: utf-8 -*-
"""
C19 - dt and regex functions act element-wise like datetime and re.

Oracle: per element, the Python datetime / re call on the Python value the
vector element was built from; Match objects are compared by (span, groups);
missing elements must give missing cells; proxy == module function; scalar ==
one-element vector.
"""

import datetime
import re

import numpy as np

from vmon import canon, gen
from vmon.res import Result, exc_name

ID = "C19"
LEVEL = "exploration"
CASES = {"quick": 6000, "thorough": 600000}
RULE = ("seeded random date/datetime vectors (length 0-12, units D,h,m,s,ms,us, years 1-9999 with calendar edge pool: leap days, ISO-week-53 "
        "years, year boundaries, 1969/1970; NaT anywhere incl. all) x {11 extractors, replace with scalar and vector components, to_string "
        "over a fixed strftime family, from_string inverse}; string vectors with '' x 7 regex functions x a fixed pattern family incl. "
        "empty-matching patterns, groups, flags, count/maxsplit; each via module function, Vector proxy and scalar form; non-trivial = length "
        ">= 1; distinct = distinct (function, unit or pattern, NA pattern, calling form) signatures")
ASSUMPTIONS = [
    "time-of-day extractors are driven on second-or-finer units only; whether a result is int or float (NaT present) is not asserted, values compare numerically",
    "from_string(to_string(x, f), f) is asserted for years >= 1000 only (platform strftime('%Y') does not zero-pad)",
    "a scalar '' is not judged (a scalar cannot be missing)",
    "nanosecond vectors hold whole microseconds and stay within 1678-2261, also after replace (the result keeps the unit of its input)",
]
REACH = {"quick": {"fn:dt-extract": 1200, "fn:dt-replace": 400, "fn:dt-to_string": 400, "fn:dt-roundtrip": 400, "fn:regex": 1500, "na:all": 200, "len:0": 200,
                   "form:proxy": 1000, "form:scalar": 500, "unit:D": 300, "unit:us": 300, "unit:ms": 100, "unit:s": 100, "after-inplace-edit": 500}}

EXTRACT = ["year", "month", "day", "hour", "minute", "second", "microsecond", "weekday", "isoweekday", "isoweek", "quarter"]
TIME_PARTS = {"hour", "minute", "second", "microsecond"}
EDGE_DATES = gen.DATES + gen.DATES_EXT + [datetime.date(2020, 12, 28), datetime.date(2021, 1, 4), datetime.date(2015, 1, 1), datetime.date(2016, 12, 31),
                                          datetime.date(2004, 2, 29), datetime.date(1582, 10, 15), datetime.date(100, 3, 1), datetime.date(2026, 1, 1)]
FORMATS = ["%Y-%m-%d", "%d.%m.%Y", "%Y-%m-%dT%H:%M:%S", "%Y-%m-%dT%H:%M:%S.%f", "%j", "%B", "%G-W%V-%u", "%H:%M", "%A %d"]
INVERTIBLE = {"D": ["%Y-%m-%d", "%d.%m.%Y", "%G-W%V-%u"], "s": ["%Y-%m-%dT%H:%M:%S"], "us": ["%Y-%m-%dT%H:%M:%S.%f"], "ms": ["%Y-%m-%dT%H:%M:%S.%f"],
              "h": ["%Y-%m-%dT%H:%M:%S"], "m": ["%Y-%m-%dT%H:%M:%S"]}
PATTERNS = [r"[a-z]", r"[a-z]+", r"\d+", r"x*", r"$", r"\b", r"(a)(b)?", r"(?P<w>\w+) (\w+)", r"^ab", r"a|b", r" +", r"[A-Z]", r"ö", r"(\d)(\d)", "ab", "a", " ", "x", "", "two"]
STRINGS = ["abc\x00", "abc\x00\x00", "asdf", "1234", "ab", "abab ab", "one two three", "four", "x", "xxx", "AbC", "a1b22", "ö ä", "two  spaces", "ab\ncd", " lead"]

def _mk_dt(rng, unit):
    d = rng.choice(EDGE_DATES)
    if unit == "ns":
        # nanosecond vectors (what pandas data arrives as) only span 1678-2261
        d = rng.choice([x for x in EDGE_DATES if 1700 < x.year < 2200])
    if unit == "D":
        return d
    h, mi, s, us = rng.choice([0, 1, 12, 23]), rng.choice([0, 5, 59]), rng.choice([0, 7, 59]), rng.choice([0, 1, 250000, 999999])
    if unit == "h": mi = s = us = 0
    if unit == "m": s = us = 0
    if unit == "s": us = 0
    if unit == "ms": us = (us // 1000) * 1000
    return datetime.datetime(d.year, d.month, d.day, h, mi, s, us)

def generate(rng, tier):
    fam = rng.choice(["extract", "extract", "replace", "to_string", "roundtrip", "regex", "regex", "regex"])
    n = rng.choice([0, 1, 1, 2, 3, 5, 12])
    na = rng.choice(["none", "none", "some", "first", "all"])
    form = rng.choice(["module", "module", "proxy", "scalar"])
    case = {"fam": fam, "form": form}
    if fam == "regex":
        vals = [rng.choice(STRINGS) for _ in range(n)]
        fn = rng.choice(["findall", "fullmatch", "match", "search", "split", "sub", "subn"])
        case.update(fn=fn, pattern=rng.choice(PATTERNS), flags=rng.choice([0, 0, re.IGNORECASE, re.MULTILINE]),
                    repl=rng.choice(["!", "", r"<\g<0>>", "zz", r"\\", r"[\g<0>]", "callable:upper", "callable:len"]), count=rng.choice([0, 0, 1, 2]))
    else:
        fn = rng.choice(EXTRACT) if fam == "extract" else fam
        unit = rng.choice(["s", "ms", "us", "ns"]) if fn in TIME_PARTS else rng.choice(["D", "D", "h", "m", "s", "ms", "us", "us", "ns"])
        if fam == "roundtrip" and unit == "ns":
            unit = "us"
        vals = [_mk_dt(rng, unit) for _ in range(n)]
        case.update(fn=fn, unit=unit)
        if fam == "replace":
            comps = {}
            parts = ["year", "month", "day"] + (["hour", "minute", "second"] if unit in ("s", "ms", "us", "ns") else []) + (["microsecond"] if unit in ("us", "ns") else [])
            for p in rng.sample(parts, rng.randint(1, 3)):
                rngs = {"year": [1, 1999, 2024, 9999] if unit != "ns" else [1999, 2024, 1800], "month": [1, 2, 12], "day": [1, 15, 28], "hour": [0, 23], "minute": [0, 59], "second": [0, 59], "microsecond": [0, 999999]}[p]
                if rng.random() < 0.5 and form != "scalar":
                    comps[p] = [rng.choice(rngs) for _ in range(n)]
                else:
                    comps[p] = rng.choice(rngs)
            if ("month" in comps or "year" in comps) and "day" not in comps:
                comps["day"] = rng.choice([1, 15, 28])    # keep the date valid (31st, leap day)
            case["comps"] = comps
        if fam == "to_string":
            case["format"] = rng.choice(FORMATS if unit != "D" else [f for f in FORMATS if "%H" not in f or True])
        if fam == "roundtrip":
            vals = [v if v.year >= 1000 else v.replace(year=v.year + 1000) for v in vals]
            case["format"] = rng.choice(INVERTIBLE[unit])
    if n:
        if na == "all": vals = [None] * n
        elif na == "first": vals[0] = None
        elif na == "some": vals = [None if rng.random() < 0.35 else v for v in vals]
    case["values"] = vals
    if form == "proxy" and rng.random() < 0.5:
        case["derived"] = rng.choice(["copy", "view", "temp"])
    if n and rng.random() < 0.3:
        if fam == "regex":
            case["edit"] = (rng.randrange(n), rng.choice(STRINGS + [None]))
        else:
            nv = _mk_dt(rng, case["unit"])
            if fam == "roundtrip" and nv.year < 1000: nv = nv.replace(year=nv.year + 1000)
            case["edit"] = (rng.randrange(n), rng.choice([nv, nv, None]))
    return case

def _match_repr(m):
    if m is None: return None
    if isinstance(m, re.Match): return ("match", m.span(), m.groups(), m.group(0))
    return m

def _eq_py(a, b):
    if isinstance(a, re.Match) or isinstance(b, re.Match):
        return _match_repr(a) == _match_repr(b)
    return a == b and type(a) is type(b) or (a == b and isinstance(a, (list, tuple, str)))

def execute(case):
    r = _execute(case, None)
    ed = case.get("edit")
    if r["violations"] or not ed or not case["values"] or case["form"] == "scalar":
        return r
    # history clause: call once, assign one element of the same Vector object in place, call again
    r2 = _execute(case, ed)
    r["classes"] = r["classes"] + ["after-inplace-edit"]
    r["violations"] = [{"key": "after-inplace-edit:" + x["key"], "msg": "after calling once and assigning one element in place: " + x["msg"]} for x in r2["violations"]]
    return r

def _execute(case, edit):
    import dataiter as di
    fam, fn, form, vals = case["fam"], case["fn"], case["form"], case["values"]
    if edit is not None:
        pos, newv = edit
        old_vals = list(vals)
        vals = list(vals)
        vals[pos % len(vals)] = newv
    n = len(vals)
    nacls = "none" if not any(v is None for v in vals) else ("all" if all(v is None for v in vals) else "some")
    res = Result(sig=f"{fam}|{fn}|{case.get('unit', case.get('pattern'))}|{form}|na:{nacls}|{case.get('format', '')}", nontrivial=n >= 1)
    res.cls(f"fn:{'regex' if fam == 'regex' else 'dt-' + ('extract' if fam == 'extract' else fam)}", f"form:{form}", f"na:{nacls}", f"len:{n if n < 2 else '2+'}")
    ctx = f"{ {k: v for k, v in case.items() if k != 'values'} } values {canon.short(vals, 500)}"
    # ------------------------------------------------------------------ regex
    if fam == "regex":
        pattern, flags, repl, count = case["pattern"], case["flags"], case["repl"], case["count"]
        if repl.startswith("callable:"):
            # re.sub / re.subn take a function of the match object as the replacement
            repl = {"callable:upper": (lambda m: m.group(0).upper()), "callable:len": (lambda m: str(len(m.group(0))))}[repl]
            if fn in ("sub", "subn"): res.cls("re:callable-repl")
        # the string vector as the library's own StringDType, as NumPy's StringDType() instance, or as an old-style fixed-width array
        skind = ["str", "str", "tstr", "ustr"][len(repr(case.get("pattern"))) % 4] if form != "scalar" else "str"
        if skind == "ustr" and edit is not None:
            skind = "tstr"        # (an in-place assignment into a fixed-width array would truncate the new value: not the library's doing)
        if skind == "ustr":
            strip = lambda v: None if v is None else (v.rstrip("\x00") or "x")      # fixed-width strings cannot hold trailing NULs
            vals = [strip(v) for v in vals]
            if edit is not None: old_vals = [strip(v) for v in old_vals]; newv = strip(newv)
        res.cls(f"string-dtype:{skind}")
        if edit is None and form == "proxy" and case.get("derived"):
            parent = di.Vector(gen.np_column(skind, list(vals) + ["zzz", "a1"]))
            try:
                parent.re.findall("a"); parent.str.upper(); parent.re.sub("z", "y")
            except Exception:
                pass
            vec = parent[:n].copy() if case["derived"] == "copy" else parent[:n]
            res.cls("proxy-on-derived-vector")
        elif edit is None:
            vec = di.Vector(gen.np_column(skind, vals))
        else:
            vec = di.Vector(gen.np_column(skind, old_vals))
            try:
                vec.re.findall("a"); di.regex.sub("a", "b", vec); di.regex.search("a", vec)
            except Exception:
                pass
            np.asarray(vec)[pos % len(vals)] = "" if newv is None else newv
        ref = getattr(re, fn)
        def call(target):
            if fn in ("sub", "subn"):
                if target is None: return lambda s: ref(pattern, repl, s, count=count, flags=flags)
                return target(pattern, repl, count=count, flags=flags) if form == "proxy" else target(pattern, repl, vec, count=count, flags=flags)
            if fn == "split":
                if target is None: return lambda s: ref(pattern, s, maxsplit=count, flags=flags)
                return target(pattern, maxsplit=count, flags=flags) if form == "proxy" else target(pattern, vec, maxsplit=count, flags=flags)
            if target is None: return lambda s: ref(pattern, s, flags=flags)
            return target(pattern, flags=flags) if form == "proxy" else target(pattern, vec, flags=flags)
        expf = call(None)
        try:
            if form == "scalar":
                got = []
                for v in vals:
                    if v is None: got.append(None); continue
                    f = getattr(di.regex, fn)
                    if fn in ("sub", "subn"): got.append(f(pattern, repl, v, count=count, flags=flags))
                    elif fn == "split": got.append(f(pattern, v, maxsplit=count, flags=flags))
                    else: got.append(f(pattern, v, flags=flags))
                outlist = got
            else:
                # "temp": the proxy is taken from a temporary vector (x[1:].re.sub(...), x.copy().dt.year()) that nothing else references
                target = (getattr(vec[:].re, fn) if case.get("derived") == "temp" else getattr(vec.re, fn)) if form == "proxy" else getattr(di.regex, fn)
                out = call(target)
                outlist = list(np.asarray(out).tolist()) if fn != "sub" else [str(x) for x in np.asarray(out).tolist()]
                if not isinstance(out, di.Vector) or len(outlist) != n:
                    res.violate(f"regex.{fn}:wrong-shape", f"returned {type(out)} of length {len(outlist)}; {ctx}")
                    return res.dict()
        except Exception as e:
            res.violate(f"regex.{fn}:raised:{exc_name(e)}:{form}:{'empty' if n == 0 else nacls}", f"raised {e!r}; {ctx}")
            return res.dict()
        for i, v in enumerate(vals):
            g = outlist[i]
            if v is None:
                miss = g is None or g == ""
                if not miss:
                    res.violate(f"regex.{fn}:missing-not-propagated", f"element {i} is missing but result is {g!r}; {ctx}")
                    break
                continue
            e = expf(v)
            if fn == "subn" and isinstance(g, list): g = tuple(g)
            if not _eq_py(g, e):
                res.violate(f"regex.{fn}:differs-from-re", f"element {i} {v!r}: got {_match_repr(g)!r} expected {_match_repr(e)!r}; {ctx}")
                break
        res.count("regex-elements", n)
        return res.dict()
    # ------------------------------------------------------------------ dt
    unit = case["unit"]
    res.cls(f"unit:{unit}")
    if edit is None and form == "proxy" and case.get("derived"):
        extra = [datetime.datetime(2001, 2, 3, 4, 5, 6) if unit != "D" else datetime.date(2001, 2, 3)] * 2
        parent = di.Vector(np.array(["NaT" if v is None else v.isoformat() for v in list(vals) + extra], dtype=f"datetime64[{unit}]"))
        try:
            parent.dt.year(); parent.dt.to_string("%Y"); parent.dt.replace(day=1); parent.dt.isoweek()
        except Exception:
            pass
        vec = parent[:n].copy() if case["derived"] == "copy" else parent[:n]
        arr = np.asarray(vec)
        res.cls("proxy-on-derived-vector")
    elif edit is None:
        arr = np.array(["NaT" if v is None else v.isoformat() for v in vals], dtype=f"datetime64[{unit}]")
        vec = di.Vector(arr)
    else:
        arr = np.array(["NaT" if v is None else v.isoformat() for v in old_vals], dtype=f"datetime64[{unit}]")
        vec = di.Vector(arr)
        try:
            vec.dt.year(); di.dt.month(vec); vec.dt.to_string("%Y-%m-%d"); di.dt.isoweek(vec); vec.dt.replace(day=1)
        except Exception:
            pass
        np.asarray(vec)[pos % len(vals)] = np.datetime64("NaT" if newv is None else newv.isoformat(), unit)
    pre = canon.col_cells(vec)
    def pv():
        # the vector the proxy is taken from: the vector itself, or (derived == "temp") a fresh temporary view of it
        return vec[:] if case.get("derived") == "temp" else vec
    def run(f_module, f_proxy, *args, **kw):
        """Call in the requested form; returns list of python results aligned with vals."""
        if form == "scalar":
            return [None if v is None else f_module(np.datetime64(v.isoformat(), unit), *args, **{k: (w if not isinstance(w, list) else None) for k, w in kw.items()}) for v in vals], True
        out = f_proxy(*args, **kw) if form == "proxy" else f_module(vec, *args, **kw)
        return out, False
    try:
        if fam == "extract":
            ref = {"year": lambda v: v.year, "month": lambda v: v.month, "day": lambda v: v.day, "hour": lambda v: v.hour, "minute": lambda v: v.minute,
                   "second": lambda v: v.second, "microsecond": lambda v: v.microsecond, "weekday": lambda v: v.weekday(), "isoweekday": lambda v: v.isoweekday(),
                   "isoweek": lambda v: v.isocalendar()[1], "quarter": lambda v: (v.month - 1) // 3 + 1}[fn]
            out, is_scalar = run(getattr(di.dt, fn), getattr(pv().dt, fn))
            got = [None if g is None else canon.canon_obj(g) for g in out] if is_scalar else canon.col_cells(out)
            exp = [canon.NA if v is None else ("N", ref(v)) for v in vals]
            if is_scalar: got = [canon.NA if g is None else g for g in got]
            if len(got) != n or not canon.cells_eq(got, exp, widen=True):
                d = canon.first_diff(got, exp, widen=True)
                what = "nat-not-missing" if isinstance(d[0], int) and d[0] < n and vals[d[0]] is None else "differs-from-datetime"
                res.violate(f"dt.{fn}:{what}", f"{d}; {ctx}")
        elif fam == "replace":
            comps = case["comps"]
            kw = {k: (di.Vector(np.array(v)) if isinstance(v, list) else v) for k, v in comps.items()}
            if form == "scalar":
                out = [None if v is None else di.dt.replace(np.datetime64(v.isoformat(), unit), **{k: w for k, w in comps.items()}) for v in vals]
                got = [canon.NA if g is None else canon.canon_obj(g) for g in out]
            else:
                out = pv().dt.replace(**kw) if form == "proxy" else di.dt.replace(vec, **kw)
                got = canon.col_cells(out)
            exp = []
            for i, v in enumerate(vals):
                if v is None: exp.append(canon.NA); continue
                exp.append(("T", canon.dt_to_us(v.replace(**{k: (w[i] if isinstance(w, list) else w) for k, w in comps.items()}))))
            if len(got) != n or not canon.cells_eq(got, exp):
                res.violate("dt.replace:differs-from-datetime", f"{canon.first_diff(got, exp)}; {ctx}")
        elif fam == "to_string":
            fmt = case["format"]
            out, is_scalar = run(di.dt.to_string, pv().dt.to_string, fmt)
            got = [canon.NA if g is None else canon.canon_obj(g, string_na=True) for g in out] if is_scalar else canon.col_cells(out)
            exp = [canon.NA if v is None else canon.canon_obj(v.strftime(fmt), string_na=True) for v in vals]
            if len(got) != n or got != exp:
                res.violate("dt.to_string:differs-from-strftime", f"{canon.first_diff(got, exp)}; {ctx}")
        else:
            fmt = case["format"]
            s = di.dt.to_string(vec, fmt)
            if form == "scalar":
                back = [None if v is None else di.dt.from_string(str(np.asarray(s)[i]), fmt) for i, v in enumerate(vals)]
                got = [canon.NA if b is None else canon.canon_obj(b) for b in back]
            else:
                if n and len(fmt) % 2 == 0 and form != "proxy":
                    lst_ = [str(x) for x in np.asarray(s).tolist()]
                    s = di.Vector(np.array(lst_, dtype=f"U{max(len(x) for x in lst_) + 1}"))       # the same strings as an old-style fixed-width array
                    res.cls("from_string:fixed-width-input")
                back = s.dt.from_string(fmt) if form == "proxy" else di.dt.from_string(s, fmt)
                got = canon.col_cells(back)
            if len(got) != n or not canon.cells_eq(got, pre):
                res.violate("dt.from_string:does-not-invert-to_string", f"{canon.first_diff(got, pre)}; strings {canon.short(np.asarray(s).tolist(), 300)}; {ctx}")
    except Exception as e:
        feat = "empty" if n == 0 else ("all-missing" if nacls == "all" else "plain")
        res.violate(f"dt.{fn}:raised:{exc_name(e)}:{feat}", f"raised {e!r}; {ctx}")
        return res.dict()
    if canon.col_cells(vec) != pre:
        res.violate(f"dt.{fn}:mutated-input", ctx)
    res.count("dt-elements", n)
    return res.dict()
