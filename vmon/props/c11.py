# -*- coding: utf-8 -*-
"""
C11 - Vector.sort / rank / unique are total and mutually consistent.

Oracle: reference results from sorted() / counting / dict.fromkeys on the
canonical cells of the input vector (read before the call).
"""

import numpy as np

from vmon import canon, gen
from vmon.res import Result, exc_name

ID = "C11"
LEVEL = "exploration"
CASES = {"quick": 20000, "thorough": 600000}
RULE = ("seeded random vectors of every orderable dtype (bool,int,float,str,>=50-char str,fixed-width str,date,"
        "datetime,object strings/bools with None) of length 0-30 with heavy ties and NA patterns none/some/first/"
        "last/all x {sort dir=1,-1; rank min,max,ordinal; unique}; non-trivial = length >= 2; distinct = distinct "
        "(function, argument, kind, length class, NA pattern, tie presence) signatures")
ASSUMPTIONS = [
    "order: numbers numerically (0.0 ties with -0.0), strings by code point, dates chronologically, False < True",
    "object vectors hold mutually comparable values (strings, bools, integers whose str() order differs from their own)",
    "strings containing U+0000 are not generated (fixed-width NumPy strings strip trailing NULs)",
]
REACH = {"quick": {"len:0": 100, "na:all": 100, "kind:lstr": 100, "kind:ostr": 50, "fn:rank": 1000, "fn:sort": 1000, "fn:unique": 500, "tag:big": 5, "after-inplace-edit": 1000}}

KINDS = ["bool", "int", "float", "str", "str", "lstr", "ustr", "date", "datetime", "ostr", "obool", "timedelta", "int_be", "float_be", "datetime_be", "tstr", "longdouble", "datetime_ns", "datetime_s", "oint", "oint"]

def generate(rng, tier):
    if rng.random() < 0.002:
        n = rng.choice([10050, 13000, 70000])
        head = [rng.choice(["a", "ab", "b", "abc", "zz"]) for _ in range(n - 40)]
        tail = [rng.choice(["abcdefgh1", "abcdefgh0", "abcdefgz", "abcd"]) if rng.random() < 0.5 else ("y" * 55) + rng.choice(["c", "a", "b"]) for _ in range(40)]
        fn = rng.choice(["sort", "rank", "unique"])
        values = head + tail
        if n == 70000:
            # more than 2**16 elements, the longest / distinguishing strings only near the START (block-wise scans)
            values = [rng.choice(["abcdefgh1", "abcdefgh0", "abcdefgz", "abcd"]) for _ in range(40)] + head
        case = {"kind": "str", "values": values, "fn": fn, "tags": ["big"]}
        if fn == "sort": case["dir"] = rng.choice([1, -1])
        if fn == "rank": case["method"] = rng.choice(["min", "max"])
        return case
    kind = rng.choice(KINDS)
    n = rng.choice([0, 0, 1, 2, 3, rng.randint(3, 12), rng.randint(3, 12), rng.randint(13, 30)])
    na = rng.choice(["none", "none", "some", "first", "last", "all", "some"])
    dup = rng.choice(["few", "few", "distinct", "equal"])
    tags = set()
    r_ = rng.random()
    if r_ < 0.01:
        n = rng.choice([255, 256, 257]); tags.add("boundary-size")        # exact boundaries of 8 / 16 bit integers (ranks, codes)
    elif r_ < 0.0106:
        n = rng.choice([65535, 65536, 65537]); tags.add("boundary-size")
    values = gen.gen_values(rng, kind, n, na, dup, hostile=0.4, tags=tags)
    if kind in ("str", "lstr") and rng.random() < 0.1:
        # mix lengths straddling the 50 character fast-path boundary
        values = [rng.choice(gen.STR_NEAR50 + gen.STR_SHORT[:3]) if v is not None else None for v in values]
    fn = rng.choice(["sort", "sort", "rank", "rank", "rank", "unique"])
    if fn == "unique" and kind == "ostr" and rng.random() < 0.5:
        if rng.random() < 0.5:
            # strings that read like a missing value next to real missing values
            values = [None if v is None else rng.choice(["None", "nan", "x", "1", ""]) for v in values]
            tags.add("ostr_nullish")
        else:
            # numbers kept as objects: equal values that print differently (1 and 1.0)
            kind = "onum"
            values = gen.gen_values(rng, kind, n, na, dup, hostile=0.0)
    case = {"kind": kind, "values": values, "fn": fn, "tags": sorted(tags)}
    if fn == "sort":
        case["dir"] = rng.choice([1, -1])
    if fn == "rank":
        case["method"] = rng.choice(["min", "max", "ordinal"])
    if rng.random() < 0.2:
        case["layout"] = rng.choice(["strided", "reversed"])      # the vector is a non-contiguous view of another vector
    if n and rng.random() < 0.3 and kind in ("str", "int", "float", "date", "bool"):
        p2 = [v for v in gen.pool(rng, kind, 0.0) if not (kind == "str" and len(v) > max([len(x) for x in values if x] + [1]) and False)]
        case["edit"] = (rng.randrange(n), rng.choice(p2))
    return case

def sort_key(cell):
    # canonical non-NA cell -> comparable key
    return cell[1]

def execute(case):
    r = _execute(case, None)
    if r["violations"] or not case.get("edit") or not case["values"]:
        return r
    # history clause: the same Vector object is edited in place and used again -- results must follow the current contents
    i, v = case["edit"]
    vals2 = list(case["values"])
    vals2[i % len(vals2)] = v
    r2 = _execute(dict(case, values=vals2), (case["values"], i % len(vals2), v))
    r["classes"] = r["classes"] + ["after-inplace-edit"]
    r["violations"] = [{"key": "after-inplace-edit:" + x["key"], "msg": "after calling the function once and assigning one element in place: " + x["msg"]} for x in r2["violations"]]
    return r

def _execute(case, history):
    import dataiter as di
    kind, values, fn = case["kind"], case["values"], case["fn"]
    n = len(values)
    nacls = "all" if n and all(v is None for v in values) else ("some" if any(v is None for v in values) else "none")
    arg = case.get("dir", case.get("method", ""))
    nonna = [v for v in values if v is not None]
    ties = len(set(map(repr, nonna))) < len(nonna)
    res = Result(sig=f"{fn}|{arg}|{kind}|n{min(n,3)}{'+' if n>3 else ''}|na:{nacls}|t{int(ties)}", nontrivial=n >= 2)
    res.cls(f"fn:{fn}", f"kind:{kind}", f"len:{n if n < 3 else '3+'}", f"na:{nacls}")
    for t in case["tags"]:
        res.cls("tag:" + t)
    layout = case.get("layout")
    if history is None and layout and n:
        if layout == "strided":
            filler = [v for v in values if v is not None][:1] or [None]
            inter = [x for v in values for x in (v, filler[0])]
            vec = di.Vector(gen.np_column(kind, inter))[::2]
        else:
            vec = di.Vector(gen.np_column(kind, values[::-1]))[::-1]
        res.cls(f"layout:{layout}")
        if np.asarray(vec).flags["C_CONTIGUOUS"] and n > 1:
            raise RuntimeError("harness: expected a non-contiguous view")
    elif history is None:
        vec = di.Vector(gen.np_column(kind, values))
    else:
        old_values, pos, newv = history
        vec = di.Vector(gen.np_column(kind, old_values))
        try:
            vec.sort(dir=1); vec.rank(method="min"); vec.unique()
        except Exception:
            pass
        np.asarray(vec)[pos] = gen.np_column(kind, [newv])[0]
    pre = canon.col_cells(vec)
    want_pre = gen.expected_cells(kind, values)
    if not canon.cells_eq(pre, want_pre):
        raise RuntimeError(f"harness: vector construction differs {pre} {want_pre}")
    idx_nonna = [i for i, c in enumerate(pre) if c != canon.NA]
    idx_na = [i for i, c in enumerate(pre) if c == canon.NA]
    try:
        if fn == "sort":
            out = vec.sort(dir=case["dir"])
        elif fn == "rank":
            out = vec.rank(method=case["method"])
        else:
            out = vec.unique()
    except Exception as e:
        feat = "empty" if n == 0 else ("all-missing" if nacls == "all" else ("with-missing" if nacls == "some" else "plain"))
        res.violate(f"{fn}:raised:{exc_name(e)}:{'object' if kind in ('ostr','obool') else ('string' if kind in ('str','lstr','ustr') else 'other')}:{feat}",
                    f"Vector.{fn}({arg}) raised {e!r} on {kind} {canon.short(values)}")
        return res.dict()
    got = canon.col_cells(out)
    if canon.col_cells(vec) != pre:
        res.violate(f"{fn}:mutated-input", f"Vector.{fn} changed its receiver: {canon.short(values)}")
    if fn == "sort":
        srt = sorted([pre[i] for i in idx_nonna], key=sort_key, reverse=case["dir"] < 0)
        exp = srt + [canon.NA] * len(idx_na)
        if not canon.cells_eq(got, exp):
            res.violate("sort:wrong-order", f"sort(dir={case['dir']}) of {kind} {canon.short(values)} gave {canon.short(got)} expected {canon.short(exp)}")
        if canon.dtype_kind(out) != canon.dtype_kind(vec):
            res.violate("sort:dtype-changed", f"{np.asarray(vec).dtype} -> {np.asarray(out).dtype}")
    elif fn == "rank":
        m = case["method"]
        keys = {i: sort_key(pre[i]) for i in idx_nonna}
        exp = [None] * n
        nn = len(idx_nonna)
        import bisect
        skeys = sorted(keys.values())
        if m == "min":
            for i in idx_nonna:
                exp[i] = 1 + bisect.bisect_left(skeys, keys[i])       # one plus the number ordered strictly before
            for i in idx_na:
                exp[i] = 1 + nn
        elif m == "max":
            for i in idx_nonna:
                exp[i] = bisect.bisect_right(skeys, keys[i])          # the number ordered before or equal
            for i in idx_na:
                exp[i] = n
        else:
            order = sorted(idx_nonna, key=lambda i: (keys[i], i)) + idx_na
            for r, i in enumerate(order):
                exp[i] = r + 1
        gotv = [c[1] if c != canon.NA and c[0] == "N" else c for c in got]
        if gotv != exp:
            feat = "na-after-top-tie" if (m == "min" and idx_na and all(gotv[i] == exp[i] for i in idx_nonna)) else "ranks"
            res.violate(f"rank:{m}:wrong-{feat}", f"rank({m}) of {kind} {canon.short(values)} gave {gotv} expected {exp}")
        if m == "ordinal" and n:
            # consistency with sort: placing elements by ordinal rank gives the ascending sort
            placed = [None] * n
            ok = sorted(gotv) == list(range(1, n + 1)) if all(isinstance(g, int) for g in gotv) else False
            if ok:
                for i, r in enumerate(gotv):
                    placed[r - 1] = pre[i]
                try:
                    s = canon.col_cells(vec.sort(dir=1))
                    if not canon.cells_eq(placed, s):
                        res.violate("rank:ordinal-inconsistent-with-sort", f"{canon.short(values)}: by rank {canon.short(placed)} vs sort {canon.short(s)}")
                    res.count("ordinal-vs-sort")
                except Exception:
                    pass
    else:
        seen, seen_keys = [], set()
        for c in pre:
            k = c if c == canon.NA else (c[0] if c[0] != "N" else "N", c[1])
            if k not in seen_keys:
                seen_keys.add(k)
                seen.append(c)
        if not canon.cells_eq(got, seen):
            res.violate("unique:wrong-values", f"unique of {kind} {canon.short(values)} gave {canon.short(got)} expected {canon.short(seen)}")
    res.count("cells-compared", len(got))
    res.observed = {"n": n, "out": canon.short(got, 120)}
    return res.dict()
