# -*- coding: utf-8 -*-
"""
C16 - ListOfDicts joins and aggregation follow first-match / partition rules.

Oracle: nested-loop reference joins over key values with Python == (None
equals None), first match by right position; aggregate = dict-of-lists grouping
of item tags with a tracer summary. Left/right items carry `_ltag_`/`_rtag_`.
"""

import collections
import copy
import functools

from vmon import canon
from vmon.res import Result, exc_name, capture_stdout

ID = "C16"
LEVEL = "exploration"
CASES = {"quick": 8000, "thorough": 640000}
RULE = ("seeded random pairs of lists (0-10 items) with duplicate and None keys on both sides, 1-2 keys, same-name and (left,right) renamed "
        "keys, disjoint key sets, empty operands x {left,inner,semi,anti,full}_join; lists with 1-2 group keys incl. None x aggregate with "
        "len + tracer summary; non-trivial = both operands non-empty / >= 2 items; distinct = distinct (operation, key count, renamed?, "
        "length classes, None-key presence, match class) signatures")
ASSUMPTIONS = [
    "key equality is Python == on the key values (None equals None)",
    "order of full_join's output is not asserted; left and right items share no non-key names",
    "every item has all join/group keys; key values are mutually comparable per key",
]
REACH = {"quick": {"op:left_join": 800, "op:full_join": 800, "op:aggregate": 800, "renamed": 1500, "none-key": 1500, "empty-operand": 400, "dup-right": 1500, "long-right": 200, "aggregate-history": 120}}

OPS = ["left_join", "inner_join", "semi_join", "anti_join", "full_join", "aggregate"]

def generate(rng, tier):
    op = rng.choice(OPS)
    nk = rng.choice([1, 1, 2])
    pools = [[1, 2, 3, None], ["x", "y", None, "z"]]
    if op == "aggregate" and rng.random() < 0.08:
        # a float group key that is NaN in some items (JSON NaN, pandas): whatever NaN groups with, None still comes last and no item is lost
        n = rng.choice([2, 4, 7, 10])
        items = [{"_tag_": i, "g0": rng.choice([1.0, 2.0, None, "nan", None, "nan"]), "g1": rng.choice(["x", "y"])} for i in range(n)]
        return {"op": "aggregate_nan", "items": items, "keys": rng.choice([["g0"], ["g1", "g0"], ["g0", "g1"]])}
    if op == "aggregate":
        n = rng.choice([0, 1, 2, 4, 7, 10])
        keys = ["g0", "g1"][:nk]
        gp = list(pools)
        if rng.random() < 0.12:
            gp = [[1, True, 0, False, 2, None], ["x", "y", None]]      # equal keys of different types: True == 1, False == 0 (one group each, as in a dict)
        elif rng.random() < 0.15:
            gp = [[(2020, 12), (2020, 1), (2019, 12), None], [("a", 1), ("a", 0), None]]      # tuple-valued group keys, e.g. (year, month)
        items = [dict({"_tag_": i}, **{k: rng.choice(gp[j]) for j, k in enumerate(keys)}) for i in range(n)]
        for it in items:
            if rng.random() < 0.5: it["v"] = rng.choice([1, 2.5, None])
        case = {"op": op, "items": items, "keys": rng.sample(keys, len(keys))}
        if n >= 2 and rng.random() < 0.3:
            # the list as it was when first aggregated: same tags, other group-key values
            case["items0"] = [dict(it, **{k: rng.choice(gp[j]) for j, k in enumerate(keys)}) for it in items]
            case["history"] = rng.choice(["rekey", "reorder"])
        return case
    nl, nr = rng.choice([0, 1, 2, 4, 7, 10]), rng.choice([0, 1, 2, 4, 7, 10])
    if rng.random() < 0.15:
        nl, nr = rng.choice([1, 2, 3]), rng.choice([35, 60])      # a right list much longer than the left one
    disjoint = rng.random() < 0.1
    by = []
    lk, rk = [], []
    for j in range(nk):
        ln = f"k{j}"
        rn = ln if rng.random() < 0.55 else f"r{j}"
        by.append(ln if ln == rn else rng.choice([(ln, rn), [ln, rn]]))      # a renamed pair is given as a tuple or as a list
        lk.append(ln); rk.append(rn)
    left = [dict({"_ltag_": i, "lv": rng.choice(["p", "q"])}, **{k: rng.choice(pools[j]) for j, k in enumerate(lk)}) for i in range(nl)]
    right = [dict({"_rtag_": i}, **{k: (rng.choice([7, 8]) if disjoint and j == 0 else rng.choice(pools[j])) for j, k in enumerate(rk)}) for i in range(nr)]
    clash = [ln for ln, rn in zip(lk, rk) if ln != rn]
    clashed = False
    if clash and op != "full_join" and rng.random() < 0.15:
        clashed = True      # (not for full_join: what a right-only item shows under a name it has twice is not defined)
        # with a renamed pair (left, right) the right items may carry an ordinary entry that happens to be named like the LEFT key
        for it in right:
            it[clash[0]] = rng.choice([100, 200])
    for it in right:
        if rng.random() < 0.7: it["rv"] = rng.choice([10, 20, None])
        if rng.random() < 0.3: it["rw"] = rng.choice(["m", [1]])
    case = {"op": op, "left": left, "right": right, "by": by}
    if op != "full_join" and rng.random() < 0.12:
        # a right list of bare keys (used as a filter): its items have nothing to merge in
        case["right"] = [{k: it[k] for k in rk} for it in right]
    if rng.random() < 0.2 and not clashed:
        # lists holding the same dict OBJECT more than once (data * 2, data + data)
        case["alias"] = rng.choice(["left", "right", "both"])
    return case

def execute(case):
    import dataiter as di
    op = case["op"]
    res = Result()
    res.cls(f"op:{op}")
    if op == "aggregate_nan":
        keys = case["keys"]
        nan = float("nan")
        items = [dict(it, g0=nan if it["g0"] == "nan" else it["g0"]) for it in case["items"]]
        res.sig = f"aggregate_nan|{keys}|n{min(len(items), 3)}"
        res.nontrivial = True
        res.cls("op:aggregate", "aggregate:nan-group-key")
        try:
            with capture_stdout():
                out = di.ListOfDicts(copy.deepcopy(items)).group_by(*keys).aggregate(n=len, tags=lambda g: [i._tag_ for i in g])
        except Exception as e:
            res.violate(f"aggregate:raised:{exc_name(e)}:nan-key", f"aggregate by {keys} raised {e!r} on {canon.short(items, 700)}")
            return res.dict()
        got = [dict(x) for x in list.__iter__(out)]
        tags = sorted(t for g in got for t in g["tags"])
        if tags != list(range(len(items))):
            res.violate("aggregate:items-lost-or-duplicated:nan-key", f"aggregate by {keys}: tags {tags} for {len(items)} items; got {canon.short(got, 600)}")
        # "None last": within the same values of the preceding keys, a group whose key is None follows every group whose key is not
        for j, k in enumerate(keys):
            for a, b in zip(got, got[1:]):
                if all(a[q] == b[q] for q in keys[:j]) and a[k] is None and b[k] is not None:
                    res.violate("aggregate:none-group-not-last:nan-key", f"aggregate by {keys}: group {a} precedes {b}; items {canon.short(items, 600)}")
                    break
        res.count("aggregates-compared")
        return res.dict()
    if op == "aggregate":
        items, keys = case["items"], case["keys"]
        n = len(items)
        nonek = any(it[k] is None for it in items for k in keys)
        res.sig = f"aggregate|k{len(keys)}|n{min(n, 3)}|none{int(nonek)}"
        res.nontrivial = n >= 2
        if nonek: res.cls("none-key")
        groups = {}
        for it in items:
            groups.setdefault(tuple(it[k] for k in keys), []).append(it["_tag_"])
        def cmp(a, b):
            for x, y in zip(a, b):
                if x is None and y is None: continue
                if x is None: return 1
                if y is None: return -1
                if x != y: return -1 if x < y else 1
            return 0
        order = sorted(groups, key=functools.cmp_to_key(cmp))
        exp = [dict(dict(zip(keys, g)), n=len(groups[g]), tags=groups[g]) for g in order]
        try:
            with capture_stdout():
                if case.get("history") and n >= 2:
                    # same-object history: group, aggregate, edit items in place (length unchanged), aggregate again without re-grouping
                    data0 = di.ListOfDicts(copy.deepcopy(case["items0"]))
                    grouped = data0.group_by(*keys)
                    grouped.aggregate(n=len)
                    for i, it in enumerate(items):
                        tgt = list.__getitem__(grouped, i)
                        for k in keys:
                            tgt[k] = it[k]
                    if case["history"] == "reorder":
                        list.sort(grouped, key=lambda x: -x["_tag_"])
                        list.sort(items, key=lambda x: -x["_tag_"])
                        groups = {}
                        for it in items:
                            groups.setdefault(tuple(it[k] for k in keys), []).append(it["_tag_"])
                        order = sorted(groups, key=functools.cmp_to_key(cmp))
                        exp = [dict(dict(zip(keys, g)), n=len(groups[g]), tags=groups[g]) for g in order]
                    data = grouped
                    out = grouped.aggregate(n=len, tags=lambda g: [i._tag_ for i in g])
                    res.cls("aggregate-history")
                elif n and n % 4 == 0:
                    # a summary stored under the name of a group key: the groups are still those of the ITEMS' key values, in that order
                    data = di.ListOfDicts(copy.deepcopy(items))
                    out = data.group_by(*keys).aggregate(n=len, tags=lambda g: [i._tag_ for i in g], **{keys[-1]: lambda g: -len(g)})
                    exp = [dict(e, **{keys[-1]: -e["n"]}) for e in exp]
                    order = None
                    res.cls("aggregate:summary-named-like-group-key")
                else:
                    data = di.ListOfDicts(copy.deepcopy(items))
                    out = data.group_by(*keys).aggregate(n=len, tags=lambda g: [i._tag_ for i in g])
        except Exception as e:
            res.violate(f"aggregate:raised:{exc_name(e)}:{'empty' if n == 0 else 'plain'}", f"aggregate by {keys} raised {e!r} on {canon.short(items, 700)}")
            return res.dict()
        got = [dict(x) for x in list.__iter__(out)]
        if got != exp:
            what = "wrong-groups-or-order" if order is None or [tuple(g.get(k) for k in keys) for g in got] != order else "wrong-summary"
            res.violate(f"aggregate:{what}", f"aggregate by {keys}: got {canon.short(got, 600)} expected {canon.short(exp, 600)}; items {canon.short(items, 600)}")
        if not case.get("history") and [dict(x) for x in list.__iter__(data)] != items:
            res.violate("aggregate:mutated-input", f"items changed: {canon.short(items, 400)}")
        res.count("aggregates-compared")
        return res.dict()
    left, right, by = case["left"], case["right"], case["by"]
    alias = case.get("alias")
    if alias in ("left", "both"): left = left + left
    if alias in ("right", "both"): right = right + right
    if alias: res.cls("aliased-items")
    by1 = [b if isinstance(b, str) else b[0] for b in by]
    by2 = [b if isinstance(b, str) else b[1] for b in by]
    renamed = by1 != by2
    lkey = [tuple(it[k] for k in by1) for it in left]
    rkey = [tuple(it[k] for k in by2) for it in right]
    first = {}
    for i, k in enumerate(rkey):
        first.setdefault(k, i)
    match = [first.get(k, -1) for k in lkey]
    nm = sum(1 for m in match if m >= 0)
    nonek = any(None in k for k in lkey + rkey)
    dup = len(set(rkey)) < len(rkey)
    res.sig = f"{op}|k{len(by)}|ren{int(renamed)}|L{min(len(left), 3)}R{min(len(right), 3)}|none{int(nonek)}|m{'none' if nm == 0 else ('all' if nm == len(left) else 'some')}|d{int(dup)}"
    res.nontrivial = bool(left) and bool(right)
    if renamed: res.cls("renamed")
    if nonek: res.cls("none-key")
    if not left or not right: res.cls("empty-operand")
    if dup: res.cls("dup-right")
    if len(right) > 10 * max(1, len(left)): res.cls("long-right")
    ctx = f"{op}(by={by}) left {canon.short(left, 600)} right {canon.short(right, 600)}"
    def merged(i):
        out = dict(left[i])
        if match[i] >= 0:
            out.update({k: v for k, v in right[match[i]].items() if k not in by2})
        return out
    try:
        with capture_stdout():
            L = di.ListOfDicts(copy.deepcopy(case["left"]))
            R = di.ListOfDicts(copy.deepcopy(case["right"]))
            if alias in ("left", "both"): L = L * 2
            if alias in ("right", "both"): R = R + R
            out = getattr(L, op)(R, *by)
    except Exception as e:
        feat = ("renamed" if renamed else "same-name") + ("+empty" if not left or not right else "")
        res.violate(f"{op}:raised:{exc_name(e)}:{feat}", f"raised {e!r}; {ctx}")
        return res.dict()
    got = [dict(x) for x in list.__iter__(out)]
    if [dict(x) for x in list.__iter__(R)] != right:
        res.violate(f"{op}:mutated-right-operand", ctx)
    if not isinstance(out, di.ListOfDicts):
        res.violate(f"{op}:not-a-ListOfDicts", f"{type(out)}")
        return res.dict()
    if op == "left_join":
        exp = [merged(i) for i in range(len(left))]
    elif op == "inner_join":
        exp = [merged(i) for i in range(len(left)) if match[i] >= 0]
    elif op == "semi_join":
        exp = [dict(left[i]) for i in range(len(left)) if match[i] >= 0]
    elif op == "anti_join":
        exp = [dict(left[i]) for i in range(len(left)) if match[i] < 0]
    else:
        exp = None
    if exp is not None:
        if got != exp:
            tg, te = [x.get("_ltag_") for x in got], [x.get("_ltag_") for x in exp]
            what = "wrong-items" if tg != te else "wrong-merge"
            res.violate(f"{op}:{what}", f"got {canon.short(got, 600)} expected {canon.short(exp, 600)}; {ctx}")
    else:
        lt = [x.get("_ltag_") for x in got]
        rt = [x.get("_rtag_") for x in got]
        lc, rc = collections.Counter(x["_ltag_"] for x in left), collections.Counter(x["_rtag_"] for x in right)
        lg, rg = collections.Counter(lt), collections.Counter(rt)
        if any(lg[t] < c for t, c in lc.items()):
            res.violate("full_join:left-item-lost", f"left tags {sorted(t for t, c in lc.items() if lg[t] < c)} absent (or fewer than in the left list); got {canon.short(got, 500)}; {ctx}")
        if any(rg[t] < c for t, c in rc.items()):
            res.violate("full_join:right-item-lost", f"right tags {sorted(t for t, c in rc.items() if rg[t] < c)} absent (or fewer than in the right list); got {canon.short(got, 500)}; {ctx}")
        for x in got:
            a, b = x.get("_ltag_"), x.get("_rtag_")
            if a is not None and b is not None and isinstance(a, int) and isinstance(b, int) and a < len(left) and b < len(right):
                if lkey[a] != rkey[b]:
                    res.violate("full_join:merged-unequal-keys", f"item {x} merges left {a} key {lkey[a]} with right {b} key {rkey[b]}; {ctx}")
                    break
            if a is not None and isinstance(a, int) and a < len(left) and b is None:
                if any(x.get(k) != v for k, v in left[a].items()):
                    res.violate("full_join:left-item-altered", f"item {x} vs left {left[a]}; {ctx}")
                    break
            if a is None and b is None:
                res.violate("full_join:item-from-nowhere", f"item {x}; {ctx}")
                break
            if a is None and isinstance(b, int) and b < len(right):
                # an item that only the right list contributes carries its key values under the LEFT names, and its other entries unchanged
                exp_x = {k: v for k, v in right[b].items() if k not in by2}
                exp_x.update({k1: right[b][k2] for k1, k2 in zip(by1, by2)})
                if any(k not in x or x[k] != v for k, v in exp_x.items()) or any(k2 in x for k1, k2 in zip(by1, by2) if k1 != k2):
                    res.violate("full_join:right-only-item-wrong", f"item {x} expected entries {exp_x} (keys under the left names); {ctx}")
                    break
    res.count("joins-compared")
    return res.dict()
