# -*- coding: utf-8 -*-
"""Result accumulator shared by the property modules."""

import contextlib
import io
import sys

class Result:

    def __init__(self, sig="", nontrivial=True):
        self.sig = sig
        self.nontrivial = nontrivial
        self.classes = []
        self.counters = {}
        self.skipped = []
        self.violations = []
        self.observed = None

    def cls(self, *names):
        for n in names:
            if n not in self.classes:
                self.classes.append(n)

    def count(self, name, n=1):
        self.counters[name] = self.counters.get(name, 0) + n

    def skip(self, reason):
        self.skipped.append(reason)

    def violate(self, key, msg):
        if len(self.violations) < 8:
            self.violations.append({"key": key, "msg": str(msg)[:4000]})

    def dict(self):
        d = {"sig": self.sig, "nontrivial": bool(self.nontrivial), "classes": self.classes,
             "counters": self.counters, "skipped": self.skipped, "violations": self.violations}
        if self.observed is not None:
            d["observed"] = self.observed
        return d

@contextlib.contextmanager
def capture_stdout():
    old = sys.stdout
    buf = io.StringIO()
    sys.stdout = buf
    try:
        yield buf
    finally:
        sys.stdout = old

def exc_name(e):
    return type(e).__name__
