# -*- coding: utf-8 -*-
"""
Random *programs* of public DataFrame operations with universal monitors
attached to every step (used by C01 and C06):

  U-RECT / U-ATTR   rectangularity and key/attribute coherence of every frame
                    touched by a step (receiver, frame arguments, result)
  U-NOMUT / U-NOALIAS  operands of non-in-place methods are unchanged after the
                    call and share no memory with the result; an active probe
                    writes into the result and re-checks the operands

A program is generated on the fly from a seed (arguments must be valid for the
*current* state of the live frames), so a case is just (seed, nsteps); the
executed trace is returned for the evidence file.
"""

import random

import contextlib
import enum
import io
import numpy as np

from vmon import canon, gen
from vmon.res import exc_name

ID_NAMES = ["c0", "c1", "c2", "c3", "c4", "k", "x", "y", "_tmp_", "_k"]
ODD_NAMES = ["a b", "1x", "items", "count", "sort", "nrow", "keys", "update", "values",
             # names of class-level attributes (not methods) of the frame class, and the empty name
             "COLUMN_PLACEHOLDER", "ATTRIBUTES", "ncol", "columns", "",
             # the name of the first parameter of every method (a keyword argument of that name must still reach **kwargs)
             "self", "self"]

class _Tag(str):
    """A str subclass, as libraries use for tagged / validated strings."""

class _Color(enum.StrEnum):
    RED = "red"
    GREEN = "green"

class Monitors:

    def __init__(self, rect=True, nomut=True):
        self.rect = rect
        self.nomut = nomut
        self.violations = []
        self.counters = {}
        self.removed = {}      # id(frame) -> set of names removed from it
        self.keep = []         # keep frames alive so that ids stay unique

    def count(self, k, n=1):
        self.counters[k] = self.counters.get(k, 0) + n

    def violate(self, prop, key, msg):
        if len(self.violations) < 6:
            self.violations.append({"prop": prop, "key": key, "msg": msg[:3500]})

    # ------------------------------------------------------------ U-RECT/U-ATTR
    def check_frame(self, df, where, builtin):
        import dataiter as di
        if not self.rect:
            return
        self.count("rect-checks")
        if not isinstance(df, di.DataFrame):
            self.violate("C01", f"{where[0]}:not-a-frame", f"{where}: {type(df)}")
            return
        items = list(dict.items(df))
        lens = []
        for k, v in items:
            if not isinstance(k, str):
                self.violate("C01", f"{where[0]}:non-string-name", f"{where}: key {k!r}")
            if not isinstance(v, di.DataFrameColumn):
                self.violate("C01", f"{where[0]}:column-not-a-column-vector", f"{where}: column {k!r} is {type(v)}")
                return
            if np.asarray(v).ndim != 1:
                self.violate("C01", f"{where[0]}:column-not-1d", f"{where}: column {k!r} has ndim {np.asarray(v).ndim}")
                return
            lens.append(np.asarray(v).shape[0])
        if len(set(lens)) > 1:
            self.violate("C01", f"{where[0]}:ragged", f"{where}: column lengths {dict(zip([k for k, _ in items], lens))}")
            return
        try:
            nrow, ncol, colnames = df.nrow, df.ncol, df.colnames
        except Exception as e:
            self.violate("C01", f"{where[0]}:shape-accessors-raise", f"{where}: nrow/ncol/colnames raised {e!r}")
            return
        if nrow != (lens[0] if lens else 0) or ncol != len(items) or colnames != [k for k, _ in items]:
            self.violate("C01", f"{where[0]}:shape-accessors-disagree", f"{where}: nrow={nrow} ncol={ncol} colnames={colnames} vs dict {[(k, l) for (k, _), l in zip(items, lens)]}")
        for k, v in items:
            if df[k] is not v:
                self.violate("C01", f"{where[0]}:getitem-differs", f"{where}: data[{k!r}] is not the stored column")
            if k.isidentifier() and k not in builtin:
                try:
                    a = getattr(df, k)
                except AttributeError:
                    self.violate("C01", f"{where[0]}:column-not-reachable-by-attribute", f"{where}: data.{k} raises AttributeError but data[{k!r}] exists")
                    continue
                if a is not v:
                    self.violate("C01", f"{where[0]}:attribute-differs-from-key", f"{where}: data.{k} is {type(a)} not data[{k!r}]")
                self.count("attr-checks")
        for k in self.removed.get(id(df), ()):
            if k in dict.keys(df):
                continue
            if k.isidentifier() and k not in builtin and hasattr(df, k):
                self.violate("C01", f"{where[0]}:removed-column-still-reachable-by-attribute",
                             f"{where}: column {k!r} was removed but data.{k} still resolves to {getattr(df, k)!r}")
            self.count("removed-checks")

    # ------------------------------------------------------------ U-NOMUT
    @staticmethod
    def snapshot(df):
        cols = []
        for k, v in dict.items(df):
            a = np.asarray(v)
            if a.dtype.kind in "OTU" or a.dtype.hasobject or str(a.dtype).startswith("StringDType"):
                payload = [repr(x) for x in a.tolist()]
            else:
                payload = np.ascontiguousarray(a).tobytes()
            cols.append((k, str(a.dtype), a.shape, payload))
        try:
            g = tuple(object.__getattribute__(df, "_group_colnames"))
        except AttributeError:
            g = ()
        return (cols, g)

def _vec_snapshot(v):
    a = np.asarray(v)
    if a.dtype.kind in "OTU" or a.dtype.hasobject or str(a.dtype).startswith("StringDType"):
        return (str(a.dtype), a.shape, [repr(x) for x in a.tolist()])
    return (str(a.dtype), a.shape, np.ascontiguousarray(a).tobytes())

def different_value(a):
    """A value of a's dtype different from a[0] (for the active aliasing probe)."""
    x = a[0]
    k = a.dtype.kind
    if k == "b": return not bool(x)
    if k in "iu": return 1 if int(x) != 1 else 2
    if k == "f": return 1.0 if not (x == 1.0) else 2.0
    if k == "M": return np.datetime64("2001-01-01") if not (x == np.datetime64("2001-01-01")) else np.datetime64("2002-02-02")
    if k == "m": return np.timedelta64(5, "s") if not (x == np.timedelta64(5, "s")) else np.timedelta64(6, "s")
    if k == "U" or str(a.dtype).startswith("StringDType"): return "q" if x != "q" else "r"
    if k == "S": return b"q" if x != b"q" else b"r"
    if k == "c": return 9j
    if k == "O": return "probe" if x != "probe" else "probe2"
    return None

KINDS_ALL = ["bool", "int", "float", "str", "lstr", "ustr", "date", "datetime", "obool", "obj", "float32", "int32", "bytes", "timedelta"]
KINDS_SAFE = ["bool", "int", "float", "str", "lstr", "ustr", "date", "datetime", "obool"]

class Program:

    def __init__(self, seed, nsteps, monitors, kinds=None, odd_names=True):
        import dataiter as di
        self.di = di
        self.rng = random.Random(seed)
        self.nsteps = nsteps
        self.mon = monitors
        self.kinds = kinds or KINDS_SAFE
        self.odd_names = odd_names
        self.trace = []
        self.pool = []
        self.builtin = set(dir(di.DataFrame()))
        self.ok_ops = {}
        np.random.seed(seed % 100000)

    # ---- frame construction
    def new_spec(self, nrow=None, ncol=None, names=None):
        rng = self.rng
        if nrow is None:
            nrow = rng.choice([0, 1, 2, 3, 3, 4, 5, 6])
        if ncol is None:
            ncol = rng.choice([0, 1, 2, 3, 3, 4])
        pool = ID_NAMES + (ODD_NAMES if self.odd_names and rng.random() < 0.3 else [])
        names = names or rng.sample(pool, ncol)
        return [(n, k, gen.gen_values(rng, k, nrow, rng.choice(gen.NA_PATTERNS), rng.choice(["few", "distinct", "equal"]), 0.3))
                for n, k in ((n, rng.choice(self.kinds)) for n in names)]

    def add(self, df):
        self.mon.keep.append(df)
        if len(self.pool) >= 3:
            self.pool[self.rng.randrange(3)] = df
        else:
            self.pool.append(df)

    def removed(self, df, name):
        self.mon.removed.setdefault(id(df), set()).add(name)

    def unremoved(self, df, name):
        self.mon.removed.get(id(df), set()).discard(name)

    # ---- a step
    def run(self):
        for i in range(3):
            df = gen.build_frame(self.new_spec(ncol=self.rng.choice([1, 2, 3, 4])))
            self.mon.check_frame(df, ("construct", "initial"), self.builtin)
            self.add(df)
        for step in range(self.nsteps):
            if self.mon.violations:
                break
            self.step(step)
        return self.trace

    def maybe_bad(self, cols, op):
        """Now and then a call that fails half-way (a column name that does not exist, after valid ones): a failed call changes nothing either."""
        if self.rng.random() < 0.12:
            self.mon.count("failing-call-injected:" + op)
            return list(cols) + ["no_such_column_"]
        return cols

    def pick_cols(self, df, kmin=1, kmax=3):
        names = list(dict.keys(df))
        if not names or kmin > len(names):
            return None
        return self.rng.sample(names, self.rng.randint(kmin, min(kmax, len(names))))

    def step(self, i):
        rng = self.rng
        di = self.di
        df = rng.choice(self.pool)
        ops = ["filter", "filter_out", "slice", "slice_off", "head", "tail", "sample", "drop_na", "unique", "sort",
               "left_join", "inner_join", "semi_join", "anti_join", "full_join", "rbind", "cbind", "update",
               "modify_scalar", "modify_vector", "modify_callable", "modify_grouped", "select", "unselect", "rename",
               "setitem", "setattr", "setitem_scalar", "setitem_wrong_length", "delitem", "delattr", "pop", "popitem", "colnames",
               "copy", "deepcopy", "clear", "aggregate", "count", "lod_roundtrip", "json_roundtrip", "pandas_roundtrip",
               "arrow_roundtrip", "new_kwargs", "new_from_columns", "group_by", "split", "compare_eq", "to_string", "file_roundtrip",
               "new_mixed_lengths", "grouped_lengths_modify", "export_probe", "compare_probe", "ior_on_empty"]
        op = rng.choice(ops)
        nrow = canon.frame_nrow(df)
        names = list(dict.keys(df))
        inplace = op in ("setitem", "setattr", "setitem_scalar", "setitem_wrong_length", "delitem", "delattr", "pop", "popitem", "colnames", "group_by")
        shallow = op in ("copy", "new_from_columns")
        operands = [df]
        call = None
        post = None       # extra check after success
        desc = op
        try:
            if op in ("filter", "filter_out"):
                mask = [rng.random() < 0.5 for _ in range(nrow)]
                arg = rng.choice([lambda: di.Vector.fast(mask, bool), lambda: np.array(mask, bool), lambda: (lambda d: np.array(mask, bool))])()
                kwc = {}
                boolcols = [n_ for n_ in names if canon.dtype_kind(dict.__getitem__(df, n_)) == "bool" and n_.isidentifier()]
                if rng.random() < 0.3 and nrow:
                    # rows given together with a column=value condition, rows possibly being a column of the frame itself
                    simple = [n_ for n_ in names if canon.dtype_kind(dict.__getitem__(df, n_)) in ("int", "bool", "float", "string") and n_.isidentifier() and n_ not in ("rows",)]
                    if simple:
                        cn = rng.choice(simple)
                        kwc = {cn: np.asarray(dict.__getitem__(df, cn))[rng.randrange(nrow)]}
                    if boolcols and rng.random() < 0.5:
                        arg = dict.__getitem__(df, rng.choice(boolcols))
                    self.mon.count("filter-rows-and-keywords")
                if isinstance(arg, np.ndarray):
                    operands.append(arg)
                call = lambda: getattr(df, op)(arg, **kwc)
            elif op in ("slice", "slice_off"):
                idx = [rng.randrange(nrow) for _ in range(rng.randint(0, nrow + 1))] if nrow else []
                if nrow and rng.random() < 0.35:
                    # positions given in other forms: a range (contiguous run), an integer array, an integer Vector
                    a_ = rng.randrange(nrow); b_ = rng.randint(a_, nrow)
                    idx = rng.choice([lambda: range(a_, b_), lambda: np.arange(a_, b_), lambda: di.Vector(list(range(a_, b_)), int), lambda: tuple(range(a_, b_))])()
                    if isinstance(idx, np.ndarray): operands.append(idx)
                    self.mon.count("slice-rows-other-forms")
                cols = None
                if names and rng.random() < 0.3:
                    cols = sorted(rng.sample(range(len(names)), rng.randint(1, len(names))))
                    if rng.random() < 0.4:
                        # column positions as an integer Vector (kept and reused by the caller), counting from the end
                        cols = di.Vector([c - len(names) if rng.random() < 0.6 else c for c in cols], int)
                        operands.append(cols)
                        self.mon.count("slice-cols-as-vector")
                call = lambda: getattr(df, op)(rows=idx, cols=cols) if cols is not None else getattr(df, op)(rows=idx)
            elif op in ("head", "tail", "sample"):
                n = rng.choice([0, 1, 2, nrow, nrow + 2, None])
                call = lambda: getattr(df, op)(n) if n is not None else getattr(df, op)()
            elif op == "drop_na":
                cols = self.pick_cols(df, 0) or []
                cols = self.maybe_bad(cols, op)
                call = lambda: df.drop_na(*cols)
            elif op == "unique":
                cols = self.pick_cols(df, 0) or []
                cols = self.maybe_bad(cols, op)
                call = lambda: df.unique(*cols)
            elif op == "sort":
                cols = self.pick_cols(df)
                if not cols: return
                cols = [c for c in cols if canon.dtype_kind(dict.__getitem__(df, c)) != "object" or
                        all(isinstance(x, (bool, type(None))) for x in np.asarray(dict.__getitem__(df, c)).tolist())]
                if not cols: return
                kw = {c: rng.choice([1, -1]) for c in self.maybe_bad(cols, op)}
                call = lambda: df.sort(**kw)
            elif op.endswith("_join"):
                other = rng.choice(self.pool)
                onames = list(dict.keys(other))
                by = []
                for n in names:
                    if n in onames and canon.dtype_kind(dict.__getitem__(df, n)) == canon.dtype_kind(dict.__getitem__(other, n)) \
                            and canon.dtype_kind(dict.__getitem__(df, n)) not in ("object",):
                        by.append(n)
                if not by:
                    # renamed keys of equal kind
                    for n in names:
                        for m in onames:
                            k1, k2 = canon.dtype_kind(dict.__getitem__(df, n)), canon.dtype_kind(dict.__getitem__(other, m))
                            if k1 == k2 and k1 not in ("object", "bytes") and not by:
                                by.append((n, m))
                if not by: return
                by = by[:rng.randint(1, min(2, len(by)))]
                operands.append(other)
                call = lambda: getattr(df, op)(other, *by)
                desc = f"{op} by={by}"
            elif op == "rbind":
                other = rng.choice(self.pool)
                operands.append(other)
                others = [other]
                if rng.random() < 0.4:
                    # a further operand bringing several columns not seen before
                    extra = gen.build_frame(self.new_spec(nrow=rng.choice([0, 1, 2]), ncol=rng.choice([2, 3, 4])))
                    others.append(extra)
                    operands.append(extra)
                call = lambda: df.rbind(*others)
                union = list(names)
                for o in others:
                    for n_ in dict.keys(o):
                        if n_ not in union: union.append(n_)
                post = ("union-order", union, None)
            elif op in ("cbind", "update"):
                onrow = nrow if rng.random() < 0.7 else 1
                other = gen.build_frame(self.new_spec(nrow=onrow, ncol=rng.randint(1, 3)))
                self.mon.check_frame(other, ("construct", "operand"), self.builtin)
                operands.append(other)
                call = lambda: getattr(df, op)(other)
            elif op.startswith("modify_"):
                name = rng.choice(names + ["c9", "z"]) if names else "z"
                kind = rng.choice(self.kinds)
                if op == "modify_scalar":
                    if nrow == 0 and names: return
                    kind = rng.choice([k for k in self.kinds if k != "obj"])
                    v = gen.np_column(kind, gen.gen_values(rng, kind, 1, "none"))[0]
                    call = lambda: df.modify(**{name: v})
                    post = ("broadcast", name, v)
                elif op == "modify_vector":
                    n = nrow if names else rng.randint(0, 3)
                    donors = [(o, c) for o in self.pool for c in dict.keys(o) if canon.frame_nrow(o) == nrow and names]
                    if donors and rng.random() < 0.5:
                        # an existing column (already a DataFrameColumn of the right length) handed over as the new value
                        src, cname = rng.choice(donors)
                        v = dict.__getitem__(src, cname)
                        if src is not df:
                            operands.append(src)
                        self.mon.count("modify-with-existing-column")
                    else:
                        v = di.Vector(gen.np_column(kind, gen.gen_values(rng, kind, n, "some")))
                        operands.append(v)
                    call = lambda: df.modify(**{name: v})
                elif op == "modify_callable":
                    n = nrow if names else rng.randint(0, 3)
                    if names and rng.random() < 0.5:
                        cname = rng.choice(names)
                        call = lambda: df.modify(**{name: lambda d: d[cname]})
                        self.mon.count("modify-with-existing-column")
                    else:
                        arr = gen.np_column(kind, gen.gen_values(rng, kind, n, "some"))
                        call = lambda: df.modify(**{name: lambda d: di.Vector(arr)})
                else:
                    cols = self.pick_cols(df, 1, 2)
                    if not cols or nrow == 0: return
                    cols = [c for c in cols if canon.dtype_kind(dict.__getitem__(df, c)) not in ("object", "bytes")]
                    if not cols: return
                    def call():
                        g = df.copy().group_by(*cols)
                        return g.modify(**{name: lambda d: d.nrow})
            elif op in ("select", "unselect"):
                cols = self.pick_cols(df, 0 if op == "unselect" else 1, 4)
                if cols is None: return
                call = lambda: getattr(df, op)(*cols)
            elif op == "rename":
                cols = self.pick_cols(df, 1, 2)
                if not cols: return
                fresh = rng.sample(["r0", "r1", "r2", "new name"], len(cols))
                call = lambda: df.rename(**dict(zip(fresh, cols)))
            elif op in ("setitem", "setattr"):
                kind = rng.choice(self.kinds)
                name = rng.choice(names + ["c9", "z", "w w", "count"]) if op == "setitem" else rng.choice([n for n in names if n.isidentifier() and n not in ("colnames", "_group_colnames")] + ["c9", "z"])
                n = nrow if names else rng.randint(0, 3)
                form = rng.choice(["vector", "ndarray", "list"])
                vals = gen.gen_values(rng, kind, n, "some")
                arr = gen.np_column(kind, vals)
                v = di.Vector(arr) if form == "vector" else (arr if form == "ndarray" else (arr.tolist() if kind in ("int", "float", "bool") else arr))
                via = rng.choice(["item", "item", "setdefault", "ior", "ior-pairs"]) if op == "setitem" else "attr"
                if via == "setdefault" and name in names:
                    via = "item"
                if op == "setitem":
                    # the inherited dict spellings of a column assignment go through the same reconciliation as data[name] = v
                    def call():
                        if via == "item": df[name] = v
                        elif via == "setdefault":
                            got = df.setdefault(name, v)
                            if got is not dict.__getitem__(df, name):
                                self.mon.violate("C01", "setdefault-returned-something-else", f"setdefault({name!r}, ...) did not return the stored column")
                        elif via == "ior": df.__ior__({name: v})
                        else: df.__ior__([(name, v)])
                    desc = f"setitem:{via}"
                    self.mon.count(f"assign-via:{via}")
                else:
                    def call():
                        setattr(df, name, v)
                post = ("assigned", name, None)
            elif op == "setitem_scalar":
                if nrow == 0 and names: return
                kind = rng.choice([k for k in self.kinds if k != "obj"])
                name = rng.choice(names + ["c9", "z"]) if names else "z"
                v = gen.np_column(kind, gen.gen_values(rng, kind, 1, "none"))[0]
                form = rng.choice(["scalar", "len1-list", "len1-vector", "zero-dim-array"])
                vv = v if form == "scalar" else ([v] if form == "len1-list" else di.Vector(gen.np_column(kind, [gen.gen_values(rng, kind, 1, "none")[0]])))
                if form == "zero-dim-array":
                    vv = np.asarray(v)        # a zero-dimensional array: a scalar in array clothing (broadcast like one, or rejected -- never stored as it is)
                    if vv.ndim != 0: vv = v
                if form == "len1-vector":
                    v = np.asarray(vv)[0]
                if rng.random() < 0.08:
                    # a scalar of a subclass of str (an enum.StrEnum member, a tagged string): one string, not a sequence of characters
                    vv = rng.choice([_Tag("red"), _Color.GREEN, _Tag(""), _Tag("x")])
                    v = str.__str__(vv)
                    form = "str-subclass"
                    self.mon.count("scalar-of-str-subclass")
                via = rng.choice(["item", "item", "item", "setdefault", "ior"])
                if via == "setdefault" and name in names:
                    via = "item"
                def call():
                    if via == "item": df[name] = vv
                    elif via == "setdefault": df.setdefault(name, vv)
                    else: df.__ior__({name: vv})
                self.mon.count(f"assign-via:{via}")
                post = ("broadcast", name, v)
            elif op == "setitem_wrong_length":
                if not names: return
                bad = rng.choice([n for n in (0, 2, 3, nrow + 1, nrow + 2, max(0, nrow - 1)) if n not in (1, nrow)])
                kind = rng.choice(["int", "float", "str"])
                v = gen.np_column(kind, gen.gen_values(rng, kind, bad, "none"))
                if nrow >= 4 and nrow % 2 == 0 and rng.random() < 0.35:
                    # a two-dimensional array with as many ELEMENTS as the frame has rows, but not as many rows: not a column vector of length nrow
                    v = np.arange(nrow, dtype=rng.choice(["int64", "float64"])).reshape(rng.choice([(2, nrow // 2), (nrow // 2, 2)]))
                    bad = f"{v.shape}"
                    self.mon.count("wrong-length:2d-array-of-nrow-elements")
                name = rng.choice(names + ["z"])
                how = rng.choice(["setitem", "setattr", "modify", "cbind", "setdefault", "ior", "ior-second"])
                if how == "setdefault" and name in names:
                    name = "z9"
                pre_cells = canon.frame_cells(df)
                try:
                    if how == "setitem":
                        df[name] = v
                    elif how == "setattr" and name.isidentifier() and name not in ("colnames",):
                        setattr(df, name, v)
                    elif how == "setdefault":
                        df.setdefault(name, v)
                    elif how == "ior":
                        df.__ior__({name: v})
                    elif how == "ior-second":
                        # a good column first, the bad one second: nothing may be stored
                        df.__ior__({"zok": np.zeros(nrow), name: v})
                    elif how == "modify":
                        df.modify(**{name: v})
                    else:
                        df.cbind(di.DataFrame(zz=v))
                    if how in ("setitem", "setattr") or True:
                        self.mon.violate("C01", "wrong-length-accepted", f"{how} of a length-{bad} value into a {nrow}-row frame did not raise; frame now {canon.short(canon.frame_cells(df), 500)}")
                except Exception:
                    self.mon.count("wrong-length-rejected")
                if canon.frame_cells(df) != pre_cells:
                    self.mon.violate("C01", "failed-assignment-left-partial-edit", f"{how} of a wrong-length value raised or not, but the frame changed: {canon.short(pre_cells, 400)} -> {canon.short(canon.frame_cells(df), 400)}")
                if name not in dict.keys(df):
                    self.removed(df, name)      # never stored: must not be reachable by key or attribute either
                self.mon.check_frame(df, ("setitem_wrong_length", "receiver"), self.builtin)
                self.trace.append(f"{i}:setitem_wrong_length:{how}")
                self.ok_ops["setitem_wrong_length"] = self.ok_ops.get("setitem_wrong_length", 0) + 1
                return
            elif op == "ior_on_empty":
                # |= on a data frame without columns: the new columns have to agree with EACH OTHER (broadcast or rejected, never stored ragged)
                n = rng.choice([2, 3, 4])
                vals = {"a": list(range(n)), "b": rng.choice([7, [7], list(range(n)), list(range(n + 1)), "s"]), "c": rng.choice([1.5, list(range(n)), [1, 2, 3, 4, 5, 6]])}
                items = list(vals.items())
                rng.shuffle(items)
                fr = di.DataFrame()
                if rng.random() < 0.5 and names:
                    fr = df.copy()
                    for n_ in list(dict.keys(fr)):
                        fr.pop(n_)               # emptied in place
                try:
                    fr.__ior__(dict(items))
                    self.mon.count("ior-on-empty:accepted")
                except Exception:
                    self.mon.count("ior-on-empty:rejected")
                self.mon.check_frame(fr, ("ior_on_empty", "receiver"), self.builtin)
                self.trace.append(f"{i}:ior_on_empty")
                self.ok_ops["ior_on_empty"] = self.ok_ops.get("ior_on_empty", 0) + 1
                return
            elif op == "new_mixed_lengths":
                # construction from values of different lengths, in every argument position: length-one values (scalar, list, array,
                # vector, a column of a one-row frame) are broadcast to the longest, anything else is rejected
                n = rng.choice([2, 3, 3, 4, 5])
                k = rng.randint(2, 4)
                cnames = rng.sample(ID_NAMES, k)
                forms = [rng.choice(["full", "full", "scalar", "len1-list", "len1-array", "len1-vector", "len1-column", "wrong"]) for _ in range(k)]
                if "full" not in forms:
                    forms[rng.randrange(k)] = "full"
                if forms.count("wrong") > 1 or rng.random() < 0.6:
                    forms = [f if f != "wrong" else "full" for f in forms]
                values, expect = {}, {}
                one = None
                for cn, form in zip(cnames, forms):
                    kind = rng.choice(["int", "float", "str", "bool", "date"])
                    if form == "full":
                        vals = gen.gen_values(rng, kind, n, "none")
                        arr = gen.np_column(kind, vals)
                        values[cn] = rng.choice([lambda a=arr: a, lambda a=arr: di.Vector(a), lambda a=arr: di.DataFrame(q=a).q])()
                        expect[cn] = gen.expected_cells(kind, vals)
                    elif form == "wrong":
                        m = rng.choice([x for x in (0, 2, 3, n + 1, n - 1) if x not in (1, n)])
                        arr = gen.np_column(kind, gen.gen_values(rng, kind, m, "none"))
                        values[cn] = rng.choice([lambda a=arr: a, lambda a=arr: di.Vector(a), lambda a=arr: di.DataFrame(q=a).q])()
                        if n >= 4 and n % 2 == 0 and rng.random() < 0.35:
                            # n elements in two dimensions: neither a scalar, nor of length one, nor a column of n rows
                            values[cn] = np.arange(n).reshape(2, n // 2)
                            self.mon.count("construct-wrong-length:2d-array-of-n-elements")
                    else:
                        v1 = gen.gen_values(rng, kind, 1, "none")
                        arr = gen.np_column(kind, v1)
                        values[cn] = {"scalar": lambda: arr[0], "len1-list": lambda: [arr[0]], "len1-array": lambda: arr, "len1-vector": lambda: di.Vector(arr),
                                      "len1-column": lambda: di.DataFrame(q=arr).q}[form]()
                        expect[cn] = gen.expected_cells(kind, v1) * n
                how = rng.choice(["kwargs", "dict", "cbind"]) if all(cn.isidentifier() for cn in cnames) else "dict"
                if how == "cbind" and any(f in ("scalar", "len1-list") for f in forms):
                    how = "kwargs"
                try:
                    if how == "kwargs":
                        out = di.DataFrame(**values)
                    elif how == "dict":
                        out = di.DataFrame(values)
                    else:
                        out = di.DataFrame().cbind(*[di.DataFrame({cn: v}) for cn, v in values.items()])
                    failed = None
                except Exception as e:
                    out, failed = None, e
                tag = f"{how}:{'+'.join(forms)}"
                if "wrong" in forms:
                    if failed is None:
                        self.mon.violate("C01", "construct:wrong-length-accepted", f"DataFrame from lengths {tag} (n={n}) did not raise; got {canon.short(canon.frame_cells(out), 400)}")
                    self.mon.count("construct-wrong-length-rejected")
                else:
                    if failed is not None:
                        self.mon.violate("C01", f"construct:length-one-not-broadcast:raised:{exc_name(failed)}", f"DataFrame from {tag} (n={n}) raised {failed!r}; values {canon.short({k_: (np.asarray(v).tolist() if not np.isscalar(v) else v) for k_, v in values.items()}, 400)}")
                    else:
                        self.mon.check_frame(out, ("new_mixed_lengths", "result"), self.builtin)
                        cells = canon.frame_cells(out)
                        if list(cells) != cnames or any(not canon.cells_eq(cells[cn], expect[cn], widen=True) for cn in cnames):
                            self.mon.violate("C01", "construct:length-one-not-broadcast:values", f"DataFrame from {tag} (n={n}): {canon.short(cells, 500)} expected {canon.short(expect, 500)}")
                        self.add(out)
                    self.mon.count("construct-mixed-lengths-checked")
                self.trace.append(f"{i}:new_mixed_lengths:{tag}")
                self.ok_ops[op] = self.ok_ops.get(op, 0) + 1
                return
            elif op == "compare_probe":
                # DataFrame.compare(other, *by, ignore_columns=[...]): neither frame nor the list argument is changed, whatever is found
                if not names or nrow == 0 or not self.mon.nomut: return
                try:
                    x = df.copy()
                    x["cmpid_"] = np.arange(nrow)
                    y = x.slice(rows=list(range(0, nrow, 2)) or [0]) if rng.random() < 0.5 else x.copy()
                except Exception:
                    return
                ign = rng.sample(names, rng.randint(0, min(2, len(names))))
                ign0 = list(ign)
                sx, sy = Monitors.snapshot(x), Monitors.snapshot(y)
                try:
                    with contextlib.redirect_stdout(io.StringIO()):
                        x.compare(y, "cmpid_", ignore_columns=ign) if rng.random() < 0.7 else x.compare(y, "cmpid_")
                except Exception as e:
                    self.mon.count(f"op_raised:compare_probe:{exc_name(e)}")
                if ign != ign0:
                    self.mon.violate("C06", "compare:mutated-argument:ignore_columns", f"compare(..., ignore_columns={ign0}) left the caller's list as {ign}")
                if Monitors.snapshot(x) != sx or Monitors.snapshot(y) != sy:
                    self.mon.violate("C06", "compare:mutated-operand", "compare changed one of the frames")
                self.mon.count("compare-probes")
                self.trace.append(f"{i}:compare_probe")
                self.ok_ops[op] = self.ok_ops.get(op, 0) + 1
                return
            elif op == "export_probe":
                # a converted object (pyarrow.Table, pandas.DataFrame) is new data as well: a later in-place edit of the frame is not visible in it
                if not names or nrow == 0 or not self.mon.nomut: return
                target = rng.choice(["arrow", "pandas"])
                if target == "arrow" and any(canon.dtype_kind(v) in ("object", "bytes", "timedelta", "other") for v in dict.values(df)): return
                try:
                    ext = df.to_arrow() if target == "arrow" else df.to_pandas()
                except Exception as e:
                    self.mon.count(f"op_raised:export_probe:{exc_name(e)}")
                    return
                view = (lambda: repr(ext.to_pydict())) if target == "arrow" else (lambda: repr(ext.to_dict("list")))
                before = view()
                saved = []
                for cn, cv in dict.items(df):
                    ra = np.asarray(cv)
                    if ra.shape[0] and ra.flags.writeable:
                        nv = different_value(ra)
                        if nv is not None:
                            try:
                                old = ra[0].copy() if hasattr(ra[0], "copy") else ra[0]
                                ra[0] = nv
                                saved.append((ra, old))
                            except Exception:
                                pass
                after = view()
                for ra, old in saved:
                    ra[0] = old
                if before != after:
                    self.mon.violate("C06", f"to_{target}:write-to-receiver-visible-in-result", f"to_{target}(): overwriting element 0 of the frame's columns changed the converted object: {before[:300]} -> {after[:300]}")
                self.mon.count("export-probes", 1 if saved else 0)
                self.trace.append(f"{i}:export_probe:{target}")
                self.ok_ops[op] = self.ok_ops.get(op, 0) + 1
                return
            elif op == "grouped_lengths_modify":
                # group-wise modify: a function's result is broadcast within its group when it is of length one and rejected when of any other wrong length
                cols = [c for c in names if canon.dtype_kind(dict.__getitem__(df, c)) in ("int", "bool", "string", "date")]
                if not cols or nrow < 2: return
                gcol = rng.choice(cols)
                vcol = rng.choice(names)
                form = rng.choice(["column", "len1-column", "len1-list", "scalar", "wrong-column", "wrong-list"])
                if form in ("len1-list", "scalar") and canon.dtype_kind(dict.__getitem__(df, vcol)) in ("object", "bytes", "other"):
                    form = "len1-column"       # an object element may itself be a sequence: not a length-one value once unwrapped
                fn = {"column": lambda d: d[vcol], "len1-column": lambda d: d[vcol].head(1), "len1-list": lambda d: [d[vcol][0]], "scalar": lambda d: d[vcol][0],
                      "wrong-column": lambda d: d[vcol].concat(d[vcol]), "wrong-list": lambda d: list(range(d.nrow + 1))}[form]
                pre = canon.frame_cells(df)
                was_grouped = tuple(getattr(df, "_group_colnames", ()) or ())
                try:
                    out = df.copy().group_by(gcol).modify(zz9=fn)
                    failed = None
                except Exception as e:
                    out, failed = None, e
                if form.startswith("wrong"):
                    if failed is None:
                        self.mon.violate("C01", "grouped-modify:wrong-length-accepted", f"group_by({gcol!r}).modify with a {form} result did not raise; zz9 = {canon.short(canon.col_cells(dict.__getitem__(out, 'zz9')), 300)} frame {canon.short(pre, 400)}")
                    self.mon.count("grouped-modify-wrong-length-rejected")
                elif failed is not None:
                    self.mon.violate("C01", f"grouped-modify:{form}:raised:{exc_name(failed)}", f"group_by({gcol!r}).modify(zz9=<{form} of {vcol!r}>) raised {failed!r}; frame {canon.short(pre, 400)}")
                else:
                    self.mon.check_frame(out, ("grouped_lengths_modify", "result"), self.builtin)
                    first = {}
                    exp = []
                    for gk, v in zip(pre[gcol], pre[vcol]):
                        first.setdefault(gk, v)
                        exp.append(v if form == "column" else first[gk])
                    got = canon.col_cells(dict.__getitem__(out, "zz9"))
                    if not canon.cells_eq(got, exp, widen=True):
                        self.mon.violate("C01", f"grouped-modify:{form}:not-broadcast-within-group", f"group_by({gcol!r}).modify(zz9=<{form} of {vcol!r}>): {canon.short(got, 300)} expected {canon.short(exp, 300)}; frame {canon.short(pre, 400)}")
                    self.mon.count("grouped-modify-lengths-checked")
                if canon.frame_cells(df) != pre:
                    self.mon.violate("C06", "grouped_lengths_modify:mutated-operand", f"receiver changed: {canon.short(pre, 300)} -> {canon.short(canon.frame_cells(df), 300)}")
                self.trace.append(f"{i}:grouped_lengths_modify:{form}")
                self.ok_ops[op] = self.ok_ops.get(op, 0) + 1
                return
            elif op in ("delitem", "delattr", "pop"):
                cands = names if op != "delattr" else [n for n in names if n.isidentifier() and n not in self.builtin]
                if not cands: return
                name = rng.choice(cands)
                if op == "delitem":
                    def call():
                        del df[name]
                elif op == "delattr":
                    def call():
                        delattr(df, name)
                else:
                    call = lambda: df.pop(name)
                post = ("removed", name, None)
            elif op == "popitem":
                if not names: return
                name = names[-1]
                call = lambda: df.popitem()
                post = ("removed", name, None)
            elif op == "colnames":
                if not names: return
                r = rng.random()
                if r < 0.4:
                    new = list(names)
                    rng.shuffle(new)
                elif r < 0.55 and len(names) >= 2:
                    # fewer names than columns: the leading columns are renamed positionally, the rest keep name and place
                    fresh = [n for n in ["n1", "n2", "n3", "n4", "n5", "n6", "n7", "n8", "n9", "n10", "n11", "n12"] if n not in names]
                    k = rng.randint(1, min(len(names) - 1, len(fresh)))
                    new = fresh[:k] + names[k:]
                    partial = fresh[:k]
                else:
                    namepool = ID_NAMES + ["n1", "n2", "n3", "n4", "n5"]
                    if len(names) > len(namepool): return       # (a frame grown wider than the monitor's pool of fresh names: step skipped)
                    new = rng.sample(namepool, len(names))
                assigned = locals().get("partial") or new
                def call():
                    df.colnames = list(assigned)
                post = ("colnames", new, names)
            elif op in ("copy", "deepcopy", "clear"):
                call = lambda: getattr(df, op)()
                if op == "clear":
                    post = ("cleared", None, None)
            elif op in ("aggregate", "count"):
                cols = self.pick_cols(df, 1, 2)
                if not cols or nrow == 0: return
                cols = [c for c in cols if canon.dtype_kind(dict.__getitem__(df, c)) not in ("object", "bytes")]
                if not cols: return
                if op == "count":
                    cols = self.maybe_bad(cols, op) if rng.random() < 0.8 else []
                    call = lambda: df.count(*cols)
                else:
                    di.USE_NUMBA = False
                    builtin = self.builtin
                    def coherent(d):
                        # the group-wise subset handed to a callback is a data frame too: key and attribute access must agree
                        for n_ in dict.keys(d):
                            if n_.isidentifier() and n_ not in builtin:
                                try:
                                    if getattr(d, n_) is not d[n_]: return 0
                                except AttributeError:
                                    return 0
                        return 1
                    call = lambda: df.copy().group_by(*cols).aggregate(n=di.count(), m=lambda d: d.nrow, ok=coherent)
                    if rng.random() < 0.4:
                        # the grouped frame is kept and aggregated directly (group_by marks its receiver, which is documented):
                        # aggregate is then an ordinary non-modifying call on it -- its grouping included
                        df.group_by(*cols)
                        call = lambda: df.aggregate(n=di.count(), m=lambda d: d.nrow, ok=coherent)
                        self.mon.count("aggregate-on-kept-grouped-frame")
                    post = ("group-frames-coherent", None, None)
                    gc = tuple(getattr(df, "_group_colnames", ()) or ())
                    if gc and all(c in names for c in gc) and rng.random() < 0.4:
                        # the receiver is itself grouped and a summary function fails at its second group: nothing may have changed
                        calls = []
                        def boom(d):
                            calls.append(1)
                            if len(calls) >= 2: raise ZeroDivisionError("summary failed half-way")
                            return d.nrow
                        call = lambda: df.aggregate(n=di.count(), m=boom, k=lambda d: d.nrow)
                        post = None
                        self.mon.count("failing-call-injected:aggregate")
            elif op == "lod_roundtrip":
                if nrow == 0: return
                call = lambda: df.to_list_of_dicts().to_data_frame()
            elif op == "json_roundtrip":
                if nrow == 0 or not names: return
                call = lambda: di.DataFrame.from_json(df.to_json())
            elif op == "pandas_roundtrip":
                if not names: return
                call = lambda: di.DataFrame.from_pandas(df.to_pandas())
            elif op == "arrow_roundtrip":
                if not names: return
                if any(canon.dtype_kind(v) in ("object", "bytes", "timedelta", "other") for v in dict.values(df)): return
                call = lambda: di.DataFrame.from_arrow(df.to_arrow())
            elif op == "file_roundtrip":
                # readers: the frame comes back from a file written by the matching writer
                if not names or nrow == 0: return
                import os
                fmt = rng.choice(["pickle", "npz", "parquet", "csv", "json"])
                kinds_here = {canon.dtype_kind(v) for v in dict.values(df)}
                if fmt in ("parquet", "csv", "json") and kinds_here & {"object", "bytes", "timedelta", "other", "ustr"}: return
                if fmt in ("csv", "json") and len(names) < 2: return
                path = os.path.join(os.environ.get("VERIF_SCRATCH") or "/tmp", f"prog_{os.getpid()}.{fmt}" + rng.choice(["", ".gz"]) if fmt in ("pickle", "csv", "json") else f"prog_{os.getpid()}.{fmt}")
                def call():
                    getattr(df, "write_" + fmt)(path)
                    return getattr(di.DataFrame, "read_" + fmt)(path)
                desc = f"file_roundtrip:{fmt}"
            elif op == "new_kwargs":
                spec = self.new_spec()
                n = len(spec[0][2]) if spec else 0
                kw = {}
                for name, kind, vals in spec:
                    if not name.isidentifier(): continue
                    form = rng.choice(["list", "ndarray", "tuple", "scalar"])
                    if form == "scalar" and n >= 1 and kind in ("int", "float", "str", "bool"):
                        kw[name] = vals[0] if vals[0] is not None else 1
                    elif form == "ndarray":
                        kw[name] = gen.np_column(kind, vals)
                    elif kind in ("int", "float", "str", "bool", "date", "datetime", "obool"):
                        kw[name] = list(vals) if form == "list" else tuple(vals)
                    else:
                        kw[name] = gen.np_column(kind, vals)
                operands = []
                call = lambda: di.DataFrame(**kw)
            elif op == "new_from_columns":
                call = lambda: di.DataFrame(dict(dict.items(df)))
            elif op == "group_by":
                cols = self.pick_cols(df, 1, 2)
                if not cols: return
                call = lambda: df.group_by(*cols)
            elif op == "split":
                cols = self.pick_cols(df, 1, 2)
                if not cols or nrow == 0: return
                cols = [c for c in cols if canon.dtype_kind(dict.__getitem__(df, c)) not in ("object", "bytes")]
                if not cols: return
                call = lambda: df.split(*cols)
            elif op == "compare_eq":
                other = rng.choice(self.pool)
                operands.append(other)
                call = lambda: df == other
            elif op == "to_string":
                call = lambda: df.to_string(max_rows=rng.choice([1, 3, None]))
        except Exception as e:
            raise
        if call is None:
            return
        snaps = [Monitors.snapshot(o) if isinstance(o, di.DataFrame) else _vec_snapshot(o) for o in operands] if self.mon.nomut else None
        pre_cells = canon.frame_cells(df) if (post or inplace) else None
        try:
            out = call()
            failed = None
        except Exception as e:
            out = None
            failed = e
        self.trace.append(f"{i}:{desc}" + (f":raised:{exc_name(failed)}" if failed else ""))
        if failed is None:
            self.ok_ops[op] = self.ok_ops.get(op, 0) + 1
        else:
            self.mon.count(f"op_raised:{op}:{exc_name(failed)}")
        # ---- U-RECT on everything touched
        for o in operands:
            if isinstance(o, di.DataFrame):
                self.mon.check_frame(o, (op, "operand"), self.builtin)
        if isinstance(out, di.DataFrame):
            self.mon.check_frame(out, (op, "result"), self.builtin)
        if failed is not None and inplace and pre_cells is not None and canon.frame_cells(df) != pre_cells:
            self.mon.violate("C01", f"{op}:failed-call-left-partial-edit", f"{desc} raised {failed!r} but changed the frame")
        # ---- post conditions of in-place edits
        if failed is None and post and self.mon.rect:
            kind, name, v = post
            if kind == "broadcast":
                target = out if isinstance(out, di.DataFrame) else df
                cells = canon.col_cells(dict.__getitem__(target, name)) if name in dict.keys(target) else None
                n_expected = canon.frame_nrow(target)
                exp = [canon.canon_obj(v, string_na=isinstance(v, str))] * n_expected
                if cells is None or not canon.cells_eq(cells, exp, widen=True) or (names and n_expected != nrow):
                    self.mon.violate("C01", f"{op}:scalar-not-broadcast", f"{desc}: assigned scalar {v!r} to {name!r} of a {nrow}-row frame; column now {cells}")
                self.unremoved(target, name)
                self.mon.count("broadcast-checks")
            elif kind == "assigned":
                self.unremoved(df, name)
                if name not in dict.keys(df):
                    self.mon.violate("C01", f"{op}:assignment-lost", f"{desc}: {name!r} not in frame after assignment")
            elif kind == "removed":
                self.removed(df, name)
                if name in dict.keys(df):
                    self.mon.violate("C01", f"{op}:column-not-removed", f"{desc}: {name!r} still a key")
                order_before = [n for n in names if n != name]
                if list(dict.keys(df)) != order_before:
                    self.mon.violate("C01", f"{op}:order-changed", f"{desc}: {list(dict.keys(df))} expected {order_before}")
            elif kind == "cleared":
                # whichever object clear() emptied (a new one or the receiver): a name that is no longer a key is no longer an attribute
                for o in (df, out):
                    if isinstance(o, di.DataFrame):
                        for n_ in names:
                            if n_ not in dict.keys(o):
                                self.removed(o, n_)
            elif kind == "union-order":
                if isinstance(out, di.DataFrame) and list(dict.keys(out)) != name:
                    self.mon.violate("C01", "rbind:column-order-not-first-seen", f"{desc}: columns {list(dict.keys(out))}, first-seen order over the operands is {name}")
                self.mon.count("union-order-checks")
            elif kind == "group-frames-coherent":
                okc = canon.col_cells(dict.__getitem__(out, "ok")) if isinstance(out, di.DataFrame) and "ok" in dict.keys(out) else []
                if any(c != ("N", 1) for c in okc):
                    self.mon.violate("C01", "aggregate:group-frame-column-not-reachable-by-attribute", f"{desc}: inside aggregate callbacks a column of the group-wise frame was not reachable by attribute (columns {names})")
                self.mon.count("group-frame-checks", len(okc))
            elif kind == "colnames":
                new, old = name, v
                for o in old:
                    if o not in new:
                        self.removed(df, o)
                for nn in new:
                    self.unremoved(df, nn)
                if list(dict.keys(df)) != list(new):
                    self.mon.violate("C01", "colnames:not-renamed-positionally", f"colnames={new} on {old} gave {list(dict.keys(df))}")
                else:
                    for nn, o in zip(new, old):
                        if not canon.cells_eq(canon.col_cells(dict.__getitem__(df, nn)), pre_cells[o]):
                            self.mon.violate("C01", "colnames:values-moved", f"colnames={new} on {old}: column {nn} does not hold the values of {o}")
            self.mon.check_frame(df, (op, "receiver-after"), self.builtin)
        # ---- stable column order for operations that do not touch the column set
        if failed is None and isinstance(out, di.DataFrame) and self.mon.rect and op in (
                "filter", "filter_out", "head", "tail", "sample", "drop_na", "unique", "sort", "semi_join", "anti_join", "copy", "deepcopy",
                "modify_scalar", "modify_vector", "modify_callable", "modify_grouped", "left_join", "inner_join", "full_join", "cbind", "rbind"):
            surv = [n for n in dict.keys(out) if n in names]
            if surv != [n for n in names if n in surv]:
                self.mon.violate("C01", f"{op}:column-order-changed", f"{desc}: {names} -> {list(dict.keys(out))}")
            self.mon.count("order-checks")
        # ---- U-NOMUT / U-NOALIAS
        if self.mon.nomut and not inplace:
            for o, s in zip(operands, snaps):
                now = Monitors.snapshot(o) if isinstance(o, di.DataFrame) else _vec_snapshot(o)
                if now != s:
                    changed = [a[0] for a, b in zip(s[0], now[0]) if a != b] if isinstance(o, di.DataFrame) and len(s[0]) == len(now[0]) else "shape"
                    kinds = sorted({a[1] for a, b in zip(s[0], now[0]) if a != b}) if changed != "shape" else []
                    self.mon.violate("C06", f"{op}:mutated-operand:{'+'.join(kinds) or 'structure'}", f"{desc}: operand changed (columns {changed}); before {canon.short(s, 500)} after {canon.short(now, 500)}")
                self.mon.count("nomut-checks")
            if failed is None and isinstance(out, di.DataFrame) and not shallow:
                for rk, rv in dict.items(out):
                    ra = np.asarray(rv)
                    for o in operands:
                        cols = dict.items(o) if isinstance(o, di.DataFrame) else [("<vector>", o)]
                        for ok_, ov in cols:
                            if np.shares_memory(ra, np.asarray(ov)):
                                self.mon.violate("C06", f"{op}:result-aliases-operand", f"{desc}: result column {rk!r} shares memory with operand column {ok_!r}")
                    self.mon.count("alias-checks")
                # active probe: write into the result, operands must not see it
                before = [Monitors.snapshot(o) if isinstance(o, di.DataFrame) else _vec_snapshot(o) for o in operands]
                wrote = 0
                for rk, rv in dict.items(out):
                    ra = np.asarray(rv)
                    if ra.shape[0] and ra.flags.writeable:
                        nv = different_value(ra)
                        if nv is not None:
                            try:
                                old = ra[0]
                                ra[0] = nv
                                wrote += 1
                            except Exception:
                                pass
                after = [Monitors.snapshot(o) if isinstance(o, di.DataFrame) else _vec_snapshot(o) for o in operands]
                if wrote and before != after:
                    self.mon.violate("C06", f"{op}:write-to-result-visible-in-operand", f"{desc}: overwriting element 0 of the result columns changed an operand")
                self.mon.count("active-probes", 1 if wrote else 0)
        if failed is None and isinstance(out, di.DataFrame):
            self.add(out)
