#!/bin/sh
# usage: seedrecheck.sh Cxx X [props...]  -- re-run checks (quick, then thorough if missed) against a stored seeded patch using a scratch copy of /repo/dataiter
id=$1; x=$2; shift 2
props=${*:-$id}
d=$(mktemp -d /tmp/seedre_XXXX)
cp -r /repo/dataiter $d/ ; (cd $d && patch -p1 -s < /verif/seeded/$id-$x/patch.diff) || { echo "patch failed"; rm -rf $d; exit 2; }
for p in $props; do
  out=$(VERIF_REPO=$d /verif/check $p --tier quick --no-evidence 2>&1); code=$?
  echo "$id-$x $p quick exit=$code $(echo "$out" | grep '^violation' | head -2 | cut -c1-200)"
  if [ $code -eq 0 ]; then out=$(VERIF_REPO=$d /verif/check $p --tier thorough --no-evidence 2>&1); code=$?; echo "$id-$x $p thorough exit=$code $(echo "$out" | grep '^violation' | head -2 | cut -c1-200)"; fi
done
rm -rf $d
