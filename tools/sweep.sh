#!/bin/sh
# usage: tools/sweep.sh <tier> <seed> [<seed> ...]   -- runs every registered check for each seed, prints one line per run
tier=$1; shift
cd "$(dirname "$0")/.." || exit 2
for seed in "$@"; do
  for p in $(/venv/bin/python -c "import json;print(' '.join(c['property_id'] for c in json.load(open('MANIFEST.json'))['checks']))"); do
    out=$(VERIF_SEED=$seed ./check $p --tier $tier --no-evidence 2>&1); code=$?
    echo "seed=$seed $p exit=$code $(echo "$out" | grep -E "^\[$p\] tier" | cut -c1-160)"
    if [ $code -ne 0 ]; then echo "$out" | grep -E "^violation|VIOLATION|INCONCLUSIVE|harness" | cut -c1-1500 | head -8; fi
  done
done
