#!/venv/bin/python
"""
Which statement lines of dataiter/*.py are never executed by any check's workload (Numba off; C08's children not included)?
usage: linecov.py [cases-per-property]   -- observability for the author: shows branches no generator reaches
"""
import os, sys, io, contextlib, tempfile, dis, types
sys.path.insert(0, os.path.dirname(os.path.dirname(os.path.abspath(__file__))))
os.environ.setdefault("VERIF_SCRATCH", tempfile.mkdtemp(prefix="linecov_"))
os.environ.setdefault("NUMBA_CACHE_DIR", os.path.join(os.environ["VERIF_SCRATCH"], "nc"))
import dataiter
from vmon import runner
root = os.path.dirname(dataiter.__file__)
hit = {}
def tracer(frame, event, arg):
    fn = frame.f_code.co_filename
    if not fn.startswith(root) or "/test/" in fn:
        return None
    if event == "line":
        hit.setdefault(fn, set()).add(frame.f_lineno)
    return tracer
n = int(sys.argv[1]) if len(sys.argv) > 1 else 200
for i in range(1, 21):
    pid = f"C{i:02d}"
    if pid == "C08": continue
    prop = runner.load_prop(pid)
    if hasattr(prop, "worker_setup"): prop.worker_setup("quick")
    sys.settrace(tracer)
    try:
        for k in range(n):
            case = prop.generate(runner.case_rng(11, k), "quick")
            with contextlib.redirect_stdout(io.StringIO()):
                try: prop.execute(case)
                except Exception: pass
    finally:
        sys.settrace(None)
    print(pid, "done", file=sys.stderr)
def lines_of(co, acc):
    for _, _, ln in co.co_lines():
        if ln: acc.add(ln)
    for c in co.co_consts:
        if isinstance(c, types.CodeType):
            lines_of(c, acc)
for f in sorted(os.listdir(root)):
    if not f.endswith(".py"): continue
    path = os.path.join(root, f)
    src = open(path).read().splitlines()
    allc = set(); lines_of(compile("\n".join(src), path, "exec"), allc)
    # module-level / def / class / decorator lines execute at import: only look inside functions that were entered at all
    miss = sorted(l for l in allc - hit.get(path, set()))
    body = [l for l in miss if not src[l - 1].lstrip().startswith(("def ", "class ", "@", "import ", "from ", '"""')) and src[l - 1].startswith("    ")]
    print(f"== {f}: {len(allc)} lines, {len(body)} body lines never executed")
    for l in body:
        print(f"   {l}: {src[l - 1].rstrip()[:140]}")
