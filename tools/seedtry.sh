#!/bin/sh
# usage: seedtry.sh Cxx X [props...]  -- quick tier only, against the sub-agent's delivered patch (/tmp/seedwt/Cxx_outN/patchX.diff) on a scratch copy of the CURRENT /repo/dataiter
id=$1; x=$2; shift 2
props=${*:-$id}
case $x in A|B) o=_out;; C|D) o=_out2;; E|F) o=_out3;; G|H) o=_out4;; I|J) o=_out5;; K|L) o=_out6;; M|N) o=_out7;; O|P) o=_out8;; Q|R) o=_out9;; *) o=_out10;; esac
patch=/tmp/seedwt/${id}${o}/patch$x.diff
[ -f /verif/seeded/$id-$x/patch.diff ] && patch=/verif/seeded/$id-$x/patch.diff
d=$(mktemp -d /tmp/seedtry_XXXX)
cp -r /repo/dataiter $d/ ; (cd $d && patch -p1 -s < $patch) || { echo "patch failed"; rm -rf $d; exit 2; }
for p in $props; do
  out=$(VERIF_REPO=$d ${VERIF_SNAPSHOT:-/verif}/check $p --tier quick --no-evidence 2>&1); code=$?
  echo "$id-$x $p quick exit=$code"; echo "$out" | grep '^violation' | head -3 | cut -c1-400
done
rm -rf $d
