#!/venv/bin/python
"""Run the repository's pinned test suite (guard off) and compare with /root/.vp/BASELINE.json stable_pass."""
import json, os, subprocess, sys, tempfile, xml.etree.ElementTree as ET
base = json.load(open("/root/.vp/BASELINE.json"))
tmp = tempfile.mkdtemp(prefix="verif_baseline_")
xml = os.path.join(tmp, "junit.xml")
env = dict(os.environ, NUMBA_CACHE_DIR=os.path.join(tmp, "numba"))
env.pop("DATAITER_VERIF", None)
args = sys.argv[1:]
cmd = ["/venv/bin/python", "-m", "pytest", "-q", "-p", "no:cacheprovider", "--timeout=900",
       "--continue-on-collection-errors", f"--junitxml={xml}"] + args
subprocess.run(cmd, cwd="/repo", env=env, stdout=subprocess.DEVNULL, stderr=subprocess.DEVNULL)
passed = set()
for tc in ET.parse(xml).getroot().iter("testcase"):
    if not any(ch.tag in ("failure", "error", "skipped") for ch in tc):
        passed.add(f"{tc.get('classname')}::{tc.get('name')}")
want = set(base["stable_pass"])
if args:
    ran = {f"{tc.get('classname')}::{tc.get('name')}" for tc in ET.parse(xml).getroot().iter("testcase")}
    want &= ran
missing = sorted(want - passed)
import shutil; shutil.rmtree(tmp, ignore_errors=True)
print(f"baseline: {len(want & passed)}/{len(want)} stable tests pass")
for m in missing[:40]:
    print("  NOT PASSING:", m)
sys.exit(1 if missing else 0)
