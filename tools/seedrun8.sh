#!/bin/sh
# eighth wave: seedrun8.sh Cxx [extra-props-for-G] [extra-props-for-H]
p=$1; ea=$2; eb=$3
cd /verif
if [ ! -s /tmp/seedwt/${p}_O.json ]; then tools/seedcheck.py $p O ${ea:+--props $ea} > /tmp/seedwt/${p}_O.json 2>&1; fi
if [ ! -s /tmp/seedwt/${p}_P.json ]; then tools/seedcheck.py $p P ${eb:+--props $eb} > /tmp/seedwt/${p}_P.json 2>&1; fi
