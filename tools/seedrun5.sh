#!/bin/sh
# fifth wave: seedrun5.sh Cxx [extra-props-for-G] [extra-props-for-H]
p=$1; ea=$2; eb=$3
cd /verif
if [ ! -s /tmp/seedwt/${p}_I.json ]; then tools/seedcheck.py $p I ${ea:+--props $ea} > /tmp/seedwt/${p}_I.json 2>&1; fi
if [ ! -s /tmp/seedwt/${p}_J.json ]; then tools/seedcheck.py $p J ${eb:+--props $eb} > /tmp/seedwt/${p}_J.json 2>&1; fi
