#!/bin/sh
# third wave: seedrun3.sh Cxx [extra-props-for-E] [extra-props-for-F]
p=$1; ea=$2; eb=$3
cd /verif
if [ ! -s /tmp/seedwt/${p}_E.json ]; then tools/seedcheck.py $p E ${ea:+--props $ea} > /tmp/seedwt/${p}_E.json 2>&1; fi
if [ ! -s /tmp/seedwt/${p}_F.json ]; then tools/seedcheck.py $p F ${eb:+--props $eb} > /tmp/seedwt/${p}_F.json 2>&1; fi
