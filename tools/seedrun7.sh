#!/bin/sh
# seventh wave: seedrun7.sh Cxx [extra-props-for-G] [extra-props-for-H]
p=$1; ea=$2; eb=$3
cd /verif
if [ ! -s /tmp/seedwt/${p}_M.json ]; then tools/seedcheck.py $p M ${ea:+--props $ea} > /tmp/seedwt/${p}_M.json 2>&1; fi
if [ ! -s /tmp/seedwt/${p}_N.json ]; then tools/seedcheck.py $p N ${eb:+--props $eb} > /tmp/seedwt/${p}_N.json 2>&1; fi
