#!/venv/bin/python
"""Regenerate /verif/MANIFEST.json from the table below (one entry per built check)."""
import json, os
V = "/verif"
props = [json.loads(l) for l in open(f"{V}/properties.jsonl")]
ids = [p["id"] for p in props]

BUILT = {
 # id: (technique, level text, level note, design ref)
}
import importlib.util, sys
sys.path.insert(0, V)
table = json.load(open(f"{V}/tools/checks.json"))
checks = []
for pid in ids:
    if pid not in table: continue
    t = table[pid]
    checks.append({
        "property_id": pid,
        "quick_cmd": f"./check {pid} --tier quick",
        "thorough_cmd": f"./check {pid} --tier thorough",
        "evidence_file": f"/verif/evidence/{pid}.json",
        "replay_cmd_template": f"./check {pid} --replay {{path}}",
        "engine": "vmon",
        "level_claimed": {"category": "exploration", "text": t["level"], "design_ref": t.get("design_ref", f"DESIGN.md section 3 ({pid})")},
        "level_note": t["note"],
        "technique": t["technique"],
    })
na = [{"property_id": p, "reason": table.get("_na", {}).get(p, "check not built yet (runtime monitoring applies; see DESIGN.md section 3)")} for p in ids if p not in table]
m = {
 "version": 1,
 "setup_cmd": "true",
 "hooks": {"guard": "DATAITER_VERIF", "enable": "no hooks in /repo are needed: monitors wrap / observe the real classes from outside (DESIGN.md 1.1); the guard name is reserved", 
           "baseline_off_cmd": "/verif/tools/baseline.py", "source_commits": [], "add_only": True},
 "engines": [{"name": "vmon", "path": "/verif/vmon", "serves_properties": [c["property_id"] for c in checks],
              "kind_free_text": "runtime monitoring: seeded hostile workloads run against the real code in fresh worker processes; post-call oracles (row-id reference models, invariants, differential across process histories) observe every execution"}],
 "checks": checks,
 "notes": "Every check: exit 0 held on observed executions (KNOWN-FINDING lines for listed findings), exit 1 + VIOLATION line for an unlisted violation, exit 2 + INCONCLUSIVE when a deciding monitor was not reached. Genuine defects repaired in /repo as 'fix:' commits are listed in known_findings.json under 'fixed'.",
 "not_applicable": na,
}
json.dump(m, open(f"{V}/MANIFEST.json", "w"), indent=1)
print("checks:", [c["property_id"] for c in checks], "na:", len(na))
