#!/venv/bin/python
"""Rewrite the seeded-change table of DESIGN.md (between the SEEDTABLE markers) from seeded/*/meta.json ("current_checks", written by seedreport.py --run)."""
import json, os, re
V = os.path.dirname(os.path.dirname(os.path.abspath(__file__)))
rows = ["| id | what the change does | what it needs to manifest | caught by (first key) |", "|---|---|---|---|"]
n = q = 0
for sid in sorted(os.listdir(os.path.join(V, "seeded"))):
    m = json.load(open(os.path.join(V, "seeded", sid, "meta.json")))
    cc = m.get("current_checks") or {}
    caught = "**missed**"
    for p, tiers in cc.items():
        if not isinstance(tiers, dict): continue
        for t, v in tiers.items():
            if isinstance(v, dict) and v.get("exit") == 1:
                caught = f"{p} {t}: `{(v.get('keys') or ['?'])[0]}`"
                if t == "quick" and not m.get("neutralised_by_fix"): q += 1
                break
        if caught != "**missed**": break
    if m.get("neutralised_by_fix"):
        caught = "no longer a violation: " + m["neutralised_by_fix"].split(":")[0] + " repaired the path it relied on; every check is silent on it, as it must be (selftest/benign/R5)"
        n -= 1
    n += 1
    def cut(s, k):
        s = (s or "").replace("|", "/").replace("\n", " ")
        return s if len(s) <= k else s[:k] + "…"
    rows.append(f"| {sid} | {cut(m.get('summary'), 170)} | {cut(m.get('needs'), 120)} | {caught} |")
p = os.path.join(V, "DESIGN.md")
s = open(p).read()
a, b = s.index("<!-- SEEDTABLE:BEGIN -->"), s.index("<!-- SEEDTABLE:END -->")
s = s[:a] + "<!-- SEEDTABLE:BEGIN -->\n" + "\n".join(rows) + "\n" + s[b:]
open(p, "w").write(s)
print(f"{n} seeded changes, {q} caught by a quick tier")
