#!/bin/sh
# usage: seedrun.sh Cxx [extra-props-for-A] [extra-props-for-B]  -- runs seedcheck for A then B sequentially, results in /tmp/seedwt/Cxx_{A,B}.json
p=$1; ea=$2; eb=$3
cd /verif
if [ ! -s /tmp/seedwt/${p}_A.json ]; then tools/seedcheck.py $p A ${ea:+--props $ea} > /tmp/seedwt/${p}_A.json 2>&1; fi
if [ ! -s /tmp/seedwt/${p}_B.json ]; then tools/seedcheck.py $p B ${eb:+--props $eb} > /tmp/seedwt/${p}_B.json 2>&1; fi

# second wave: seedrun.sh Cxx "" "" 2  -> letters C and D
