#!/bin/sh
# fourth wave: seedrun3.sh Cxx [extra-props-for-G] [extra-props-for-H]
p=$1; ea=$2; eb=$3
cd /verif
if [ ! -s /tmp/seedwt/${p}_G.json ]; then tools/seedcheck.py $p G ${ea:+--props $ea} > /tmp/seedwt/${p}_G.json 2>&1; fi
if [ ! -s /tmp/seedwt/${p}_H.json ]; then tools/seedcheck.py $p H ${eb:+--props $eb} > /tmp/seedwt/${p}_H.json 2>&1; fi
