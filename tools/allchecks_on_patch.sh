#!/bin/sh
# usage: allchecks_on_patch.sh <patch.diff> [tier]  -- apply the patch to a scratch copy of /repo/dataiter and run EVERY check on it;
# prints one line per check; used to confirm that behaviour-preserving refactorings raise no alarm.
patch=$1; tier=${2:-quick}
d=$(mktemp -d /tmp/allchk_XXXX)
cp -r /repo/dataiter $d/ ; (cd $d && patch -p1 -s < $patch) || { echo "patch failed: $patch"; rm -rf $d; exit 2; }
bad=0
for p in $(/venv/bin/python -c "import json;print(' '.join(c['property_id'] for c in json.load(open('/verif/MANIFEST.json'))['checks']))"); do
  out=$(VERIF_REPO=$d ${VERIF_SNAPSHOT:-/verif}/check $p --tier $tier --no-evidence 2>&1); code=$?
  if [ $code -ne 0 ]; then bad=1; echo "$(basename $patch) $p exit=$code"; echo "$out" | grep -E "^violation|INCONCLUSIVE|harness" | cut -c1-600 | head -5; fi
done
[ $bad -eq 0 ] && echo "$(basename $patch): all checks silent ($tier)"
rm -rf $d
exit $bad
