#!/bin/sh
# sixth wave: seedrun6.sh Cxx [extra-props-for-G] [extra-props-for-H]
p=$1; ea=$2; eb=$3
cd /verif
if [ ! -s /tmp/seedwt/${p}_K.json ]; then tools/seedcheck.py $p K ${ea:+--props $ea} > /tmp/seedwt/${p}_K.json 2>&1; fi
if [ ! -s /tmp/seedwt/${p}_L.json ]; then tools/seedcheck.py $p L ${eb:+--props $eb} > /tmp/seedwt/${p}_L.json 2>&1; fi
