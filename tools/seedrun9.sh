#!/bin/sh
# ninth wave: seedrun9.sh Cxx [extra-props-for-G] [extra-props-for-H]
p=$1; ea=$2; eb=$3
cd /verif
if [ ! -s /tmp/seedwt/${p}_Q.json ]; then tools/seedcheck.py $p Q ${ea:+--props $ea} > /tmp/seedwt/${p}_Q.json 2>&1; fi
if [ ! -s /tmp/seedwt/${p}_R.json ]; then tools/seedcheck.py $p R ${eb:+--props $eb} > /tmp/seedwt/${p}_R.json 2>&1; fi
