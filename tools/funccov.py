#!/venv/bin/python
"""
Which functions of dataiter/*.py are never entered by any check's workload? (observability for the author, not a verdict)
usage: funccov.py [cases-per-property]   -- runs generate/execute of every property module in-process under sys.setprofile
"""
import os, sys, types, importlib, random, io, contextlib, tempfile
sys.path.insert(0, os.path.dirname(os.path.dirname(os.path.abspath(__file__))))
os.environ.setdefault("VERIF_SCRATCH", tempfile.mkdtemp(prefix="funccov_"))
os.environ.setdefault("NUMBA_CACHE_DIR", os.path.join(os.environ["VERIF_SCRATCH"], "nc"))
import dataiter
from vmon import runner
root = os.path.dirname(dataiter.__file__)
hit = set()
def prof(frame, event, arg):
    if event == "call":
        co = frame.f_code
        if co.co_filename.startswith(root) and "/test/" not in co.co_filename:
            hit.add((os.path.basename(co.co_filename), co.co_firstlineno, co.co_name))
n = int(sys.argv[1]) if len(sys.argv) > 1 else 400
for i in range(1, 21):
    pid = f"C{i:02d}"
    if pid == "C08": continue
    prop = runner.load_prop(pid)
    if hasattr(prop, "worker_setup"): prop.worker_setup("quick")
    sys.setprofile(prof)
    try:
        for k in range(n):
            case = prop.generate(runner.case_rng(7, k), "quick")
            with contextlib.redirect_stdout(io.StringIO()):
                try: prop.execute(case)
                except Exception: pass
    finally:
        sys.setprofile(None)
    print(pid, "done", len(hit), file=sys.stderr)
# all functions defined in the package
allf = set()
def walk(co, fn):
    for c in co.co_consts:
        if isinstance(c, types.CodeType):
            if c.co_name not in ("<listcomp>", "<genexpr>", "<dictcomp>", "<setcomp>", "<lambda>"):
                allf.add((fn, c.co_firstlineno, c.co_name))
            walk(c, fn)
for f in sorted(os.listdir(root)):
    if f.endswith(".py"):
        src = open(os.path.join(root, f)).read()
        walk(compile(src, os.path.join(root, f), "exec"), f)
miss = sorted(allf - hit)
print(f"{len(allf)} functions defined, {len(allf & hit)} entered, {len(miss)} never entered:")
for fn, ln, name in miss:
    print(f"  {fn}:{ln} {name}")
