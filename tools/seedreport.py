#!/venv/bin/python
"""
Re-run every kept seeded change in /verif/seeded against the CURRENT checks (scratch copy of /repo/dataiter + patch,
VERIF_REPO), record the outcome in each meta.json ("current_checks") and print a markdown table for DESIGN.md 5.2.
usage: seedreport.py [--run] [ids...]
"""
import glob, hashlib, json, os, shutil, subprocess, sys, tempfile, concurrent.futures

SEEDED = "/verif/seeded"
EXTRA = {"C04-T": ["C07"], "C07-A": ["C08"], "C04-C": ["C08"], "C07-C": ["C08"], "C07-F": ["C08"], "C07-E": ["C08"], "C07-G": ["C08"], "C07-I": ["C04"], "C07-L": ["C08"], "C01-N": ["C05"], "C07-P": ["C08"], "C09-O": ["C04"], "C09-M": ["C10"], "C07-Q": ["C04"], "C07-R": ["C08"], "C09-Q": ["C04"], "C09-R": ["C01"], "C04-R": ["C08"], "C06-Q": ["C11", "C03"], "C06-R": ["C04"], "C13-R": ["C10"]}   # changes that live in the Numba kernels are C08's subject as well

def checks_stamp(props):
    """Hash of the sources that decide these properties (shared monitor modules + the properties' own modules) in the tree the checks run from."""
    root = os.environ.get("VERIF_SNAPSHOT", "/verif")
    h = hashlib.sha1()
    propfiles = [os.path.join(root, "vmon", "props", p.lower() + ".py") for p in props]
    text = "".join(open(f).read() for f in propfiles)
    # shared modules every property uses, plus the ones these properties import (programs / models / numba_child)
    mods = ["__init__", "runner", "canon", "gen", "res"] + [m for m in ("programs", "models", "numba_child") if m in text]
    files = [os.path.join(root, "vmon", m + ".py") for m in mods] + [os.path.join(root, "check")] + propfiles
    for f in files:
        h.update(open(f, "rb").read())
    return h.hexdigest()[:12]

def run_one(sid):
    d = os.path.join(SEEDED, sid)
    meta = json.load(open(os.path.join(d, "meta.json")))
    props0 = [meta["breaks_property"]] + EXTRA.get(sid, [])
    stamp = checks_stamp(props0) + ":" + hashlib.sha1(open(os.path.join(d, "patch.diff"), "rb").read()).hexdigest()[:8]
    if meta.get("checked_with") == stamp and "error" not in (meta.get("current_checks") or {}):
        return sid          # already checked with these very check sources and this patch
    tmp = tempfile.mkdtemp(prefix="seedrep_")
    try:
        shutil.copytree("/repo/dataiter", os.path.join(tmp, "dataiter"), ignore=shutil.ignore_patterns("__pycache__"))
        r = subprocess.run(["patch", "-p1", "-s", "-i", os.path.join(d, "patch.diff")], cwd=tmp, capture_output=True, text=True)
        if r.returncode:
            meta["current_checks"] = {"error": "patch does not apply to current /repo: " + (r.stdout + r.stderr)[-200:]}
        else:
            props = [meta["breaks_property"]] + EXTRA.get(sid, [])
            out = {}
            # quick tier of the target property and of the extra ones first, thorough tiers only if every quick tier misses
            for tier in ("quick", "thorough"):
                for p in props:
                    if any(v.get("exit") == 1 for t in out.values() for v in t.values()):
                        break
                    r = subprocess.run([os.environ.get("VERIF_SNAPSHOT", "/verif") + "/check", p, "--tier", tier, "--no-evidence"], env=dict(os.environ, VERIF_REPO=tmp), capture_output=True, text=True)
                    keys = [l.split()[1].rstrip(":") for l in r.stdout.splitlines() if l.startswith("violation ")]
                    out.setdefault(p, {})[tier] = {"exit": r.returncode, "keys": keys[:4]}
            meta["current_checks"] = out
            meta["checked_with"] = stamp
        json.dump(meta, open(os.path.join(d, "meta.json"), "w"), indent=1)
    finally:
        shutil.rmtree(tmp, ignore_errors=True)
    return sid

def main():
    ids = [a for a in sys.argv[1:] if not a.startswith("--")] or sorted(os.listdir(SEEDED))
    if "--run" in sys.argv:
        with concurrent.futures.ThreadPoolExecutor(4) as ex:
            for sid in ex.map(run_one, ids):
                print("checked", sid, file=sys.stderr)
    print("| id | property | what the change does | needs | caught by |")
    print("|---|---|---|---|---|")
    for sid in sorted(os.listdir(SEEDED)):
        m = json.load(open(os.path.join(SEEDED, sid, "meta.json")))
        cc = m.get("current_checks") or m.get("checks_run") or {}
        caught = []
        for p, tiers in cc.items():
            if not isinstance(tiers, dict): continue
            for t, v in tiers.items():
                if isinstance(v, dict) and v.get("exit") == 1:
                    caught.append(f"{p} {t} ({', '.join(v['keys'][:2])})")
                    break
        s = (m.get("summary") or "").replace("|", "/").replace("\n", " ")
        n = (m.get("needs") or "").replace("|", "/").replace("\n", " ")
        print(f"| {sid} | {m.get('breaks_property')} | {s[:260]} | {n[:200]} | {'; '.join(caught) or '**missed**'} |")

if __name__ == "__main__":
    main()
