#!/venv/bin/python
"""
Confirm a seeded change delivered by a sub-agent and run the checks against it.

usage: seedcheck.py Cxx A|B [--props C01,C06] [--thorough]
Works in the scratch worktree /tmp/seedwt/Cxx (must be clean). Steps:
  1. demo on the clean tree must exit 0;  2. git apply patch;  3. demo must exit != 0;
  4. repository test suite with the patch: all BASELINE stable tests must still pass;
  5. run ./check for the property (and any extra) with VERIF_REPO=<worktree>: quick, then thorough if quick misses;
  6. git checkout -- . ; write /verif/seeded/Cxx-X/{patch.diff,demo.py,meta.json}
"""
import json, os, shutil, subprocess, sys, tempfile, xml.etree.ElementTree as ET

def sh(cmd, **kw):
    return subprocess.run(cmd, capture_output=True, text=True, **kw)

def main():
    pid, x = sys.argv[1], sys.argv[2]
    extra = []
    thorough = "--thorough" in sys.argv
    for a in sys.argv[3:]:
        if a.startswith("--props"):
            extra = sys.argv[sys.argv.index(a) + 1].split(",")
    wt = f"/tmp/seedwt/{pid}"
    out = f"/tmp/seedwt/{pid}_out10" if x in "ST" else f"/tmp/seedwt/{pid}_out9" if x in "QR" else f"/tmp/seedwt/{pid}_out8" if x in "OP" else f"/tmp/seedwt/{pid}_out7" if x in "MN" else f"/tmp/seedwt/{pid}_out6" if x in "KL" else f"/tmp/seedwt/{pid}_out5" if x in "IJ" else f"/tmp/seedwt/{pid}_out4" if x in "GH" else f"/tmp/seedwt/{pid}_out3" if x in "EF" else (f"/tmp/seedwt/{pid}_out2" if x in "CD" else f"/tmp/seedwt/{pid}_out")
    patch, demo, meta = f"{out}/patch{x}.diff", f"{out}/demo{x}.py", f"{out}/meta{x}.json"
    rep = {"id": f"{pid}-{x}", "property": pid}
    env = dict(os.environ, NUMBA_CACHE_DIR=f"{out}/nc_check", PYTHONDONTWRITEBYTECODE="1")
    sh(["git", "-C", wt, "checkout", "--", "."])
    if sh(["git", "-C", wt, "status", "--porcelain"]).stdout.strip():
        rep["error"] = "worktree not clean"; print(json.dumps(rep)); return 1
    r = sh(["/venv/bin/python", demo], cwd=wt, env=env, timeout=900)
    rep["demo_clean_exit"] = r.returncode
    r = sh(["git", "-C", wt, "apply", patch])
    if r.returncode:
        rep["error"] = "patch does not apply: " + r.stderr[-300:]; print(json.dumps(rep)); return 1
    try:
        r = sh(["/venv/bin/python", demo], cwd=wt, env=env, timeout=900)
        rep["demo_patched_exit"] = r.returncode
        rep["demo_patched_tail"] = (r.stdout + r.stderr)[-400:]
        tmp = tempfile.mkdtemp(prefix="seedcheck_")
        xml = os.path.join(tmp, "j.xml")
        sh(["/venv/bin/python", "-m", "pytest", "-q", "-p", "no:cacheprovider", "--timeout=900", "--continue-on-collection-errors",
            f"--junitxml={xml}", "dataiter/test"], cwd=wt, env=env, timeout=3600)
        passed = set()
        for tc in ET.parse(xml).getroot().iter("testcase"):
            if not any(ch.tag in ("failure", "error", "skipped") for ch in tc):
                passed.add(f"{tc.get('classname')}::{tc.get('name')}")
        want = set(json.load(open("/root/.vp/BASELINE.json"))["stable_pass"])
        rep["tests_missing"] = sorted(want - passed)[:10]
        rep["tests_pass"] = len(want & passed)
        shutil.rmtree(tmp, ignore_errors=True)
        checks = {}
        for p in [pid] + extra:
            for tier in (["quick"] if os.environ.get("SEEDCHECK_QUICK_ONLY") else ["quick", "thorough"]):
                if tier == "thorough" and (checks.get(p, {}).get("quick", {}).get("exit") == 1) and not thorough:
                    continue
                r = sh([os.environ.get("VERIF_SNAPSHOT", "/verif") + "/check", p, "--tier", tier, "--no-evidence"], env=dict(os.environ, VERIF_REPO=wt), timeout=7200)
                keys = [l.split()[1].rstrip(":") for l in r.stdout.splitlines() if l.startswith("violation ")]
                checks.setdefault(p, {})[tier] = {"exit": r.returncode, "keys": keys[:8]}
                if r.returncode not in (0, 1):
                    checks[p][tier]["tail"] = r.stdout[-500:]
        rep["checks"] = checks
        rep["caught_quick"] = any(v.get("quick", {}).get("exit") == 1 for v in checks.values())
        rep["caught_thorough"] = any(v.get("thorough", {}).get("exit") == 1 for v in checks.values())
    finally:
        sh(["git", "-C", wt, "checkout", "--", "."])
        shutil.rmtree(f"{out}/nc_check", ignore_errors=True)
    valid = rep.get("demo_clean_exit") == 0 and rep.get("demo_patched_exit") not in (0, None) and not rep.get("tests_missing")
    rep["valid"] = valid
    if valid:
        d = f"/verif/seeded/{pid}-{x}"
        os.makedirs(d, exist_ok=True)
        shutil.copy(patch, f"{d}/patch.diff"); shutil.copy(demo, f"{d}/demo.py")
        m = json.load(open(meta)) if os.path.exists(meta) else {}
        m.update({"breaks_property": pid, "confirmed": {"demo_exit_clean_tree": rep["demo_clean_exit"], "demo_exit_with_patch": rep["demo_patched_exit"],
                  "repo_tests_with_patch": f"{rep['tests_pass']}/515 stable tests pass", "how": "tools/seedcheck.py in scratch worktree /tmp/seedwt/" + pid},
                  "checks_run": rep["checks"], "caught_by_quick": rep["caught_quick"], "caught_by_thorough": rep["caught_thorough"]})
        json.dump(m, open(f"{d}/meta.json", "w"), indent=1)
    print(json.dumps(rep))
    return 0

if __name__ == "__main__":
    sys.exit(main())
