#!/bin/sh
# second wave: seedrun2.sh Cxx [extra-props-for-C] [extra-props-for-D]
p=$1; ea=$2; eb=$3
cd /verif
if [ ! -s /tmp/seedwt/${p}_C.json ]; then tools/seedcheck.py $p C ${ea:+--props $ea} > /tmp/seedwt/${p}_C.json 2>&1; fi
if [ ! -s /tmp/seedwt/${p}_D.json ]; then tools/seedcheck.py $p D ${eb:+--props $eb} > /tmp/seedwt/${p}_D.json 2>&1; fi
