#!/bin/sh
# tenth wave: seedrun10.sh Cxx [extra-props-for-S] [extra-props-for-T]
p=$1; ea=$2; eb=$3
cd /verif
if [ ! -s /tmp/seedwt/${p}_S.json ]; then tools/seedcheck.py $p S ${ea:+--props $ea} > /tmp/seedwt/${p}_S.json 2>&1; fi
if [ ! -s /tmp/seedwt/${p}_T.json ]; then tools/seedcheck.py $p T ${eb:+--props $eb} > /tmp/seedwt/${p}_T.json 2>&1; fi
