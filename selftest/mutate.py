#!/venv/bin/python
"""
Self-validation helper: copy /repo/dataiter to a scratch dir, apply one textual
mutation (file, old, new), run the given checks against the copy (VERIF_REPO),
report which of them fire, delete the copy.

usage: mutate.py <mutants.json> [name ...]     (mutants.json: list of {name, file, old, new, props})
"""
import json, os, shutil, subprocess, sys, tempfile

def run(m, tier="quick", cases=None):
    tmp = tempfile.mkdtemp(prefix="verif_mut_")
    try:
        shutil.copytree("/repo/dataiter", os.path.join(tmp, "dataiter"), ignore=shutil.ignore_patterns("__pycache__"))
        path = os.path.join(tmp, m["file"])
        s = open(path).read()
        if s.count(m["old"]) < 1:
            return {"error": "pattern not found"}
        s = s.replace(m["old"], m["new"], m.get("count", 1))
        open(path, "w").write(s)
        out = {}
        for pid in m["props"]:
            cmd = ["/verif/check", pid, "--tier", tier, "--no-evidence"]
            if cases: cmd += ["--cases", str(cases)]
            p = subprocess.run(cmd, env=dict(os.environ, VERIF_REPO=tmp), capture_output=True, text=True)
            keys = [l.split()[1].rstrip(":") for l in p.stdout.splitlines() if l.startswith("violation ")]
            out[pid] = {"exit": p.returncode, "keys": keys[:6]}
            if p.returncode not in (0, 1):
                out[pid]["tail"] = p.stdout[-600:]
        return out
    finally:
        shutil.rmtree(tmp, ignore_errors=True)

if __name__ == "__main__":
    muts = json.load(open(sys.argv[1]))
    names = sys.argv[2:]
    missed = 0
    for m in muts:
        if names and m["name"] not in names: continue
        r = run(m)
        caught = isinstance(r, dict) and any(v.get("exit") == 1 for v in r.values() if isinstance(v, dict))
        print(("CAUGHT " if caught else "MISSED ") + m["name"], json.dumps(r))
        missed += 0 if caught else 1
    sys.exit(1 if missed else 0)
